import numpy as np, sys, warnings
import os; sys.path.insert(0,os.path.dirname(os.path.abspath(__file__)))
from ref import *; from util import *
from scipy import sparse
from pymablock import block_diagonalize
rng=np.random.default_rng(2)
N=4
E=np.array([0.,0.,1.,3.])   # degenerate pair (0,1) kept
def herm(a): return a+a.conj().T
H1=herm(rng.normal(size=(N,N)))
mask=np.ones((N,N),bool); np.fill_diagonal(mask,False); mask[0,1]=mask[1,0]=False  # eliminate everything except degenerate pair
for fmt in ('dense','sparse'):
    h0=np.diag(E); h1=H1
    if fmt=='sparse': h0=sparse.csr_array(h0); h1=sparse.csr_array(h1)
    for fd in ('mask','tuple'):
        kw = dict(fully_diagonalize={0:mask}) if fd=='mask' else dict(fully_diagonalize=(0,))
        Ht,U,Ui=block_diagonalize([h0,h1],**kw)
        keep=~mask
        rHt,rU,rG=ref_solve({(0,):np.diag(E).astype(complex),(1,):H1.astype(complex)},keep,(3,))
        for n in range(4):
            try:
                a=full(Ht,n,[N]); b=full(U,n,[N])
                print(fmt,fd,n,type(U[0,0,n]).__name__, np.isnan(b).any(), abs(a-rHt[(n,)]).max(), abs(b-rU[(n,)]).max())
            except Exception as e:
                print(fmt,fd,n,'EXC',type(e).__name__,e)
