import numpy as np, sys, warnings
import os; sys.path.insert(0,os.path.dirname(os.path.abspath(__file__)))
from ref import *; from util import *
from scipy import sparse
from pymablock import block_diagonalize
from fuzz1 import orders_upto
def gen(rng):
    nb=rng.integers(1,4)
    sizes=[int(rng.integers(1,4)) for _ in range(nb)]
    N=sum(sizes); idx=np.repeat(np.arange(nb),sizes)
    mode=rng.choice(['degblocks','fd','mask','generic'])
    E=np.zeros(N,complex)
    for b in range(nb):
        sel=idx==b
        base=5*b+ (1j*rng.integers(-2,3))
        if mode=='degblocks': E[sel]=base
        else: E[sel]=base+rng.integers(0,3,size=sizes[b])
    npar=int(rng.integers(1,3)); z=(0,)*npar
    H={z:np.diag(E)}
    for k in range(npar):
        key=tuple(int(i==k) for i in range(npar))
        H[key]=rng.normal(size=(N,N))+1j*rng.normal(size=(N,N))
    keep=np.equal.outer(idx,idx); kw={}
    if mode=='fd' or (nb==1 and mode in('generic','degblocks')):
        blocks=list(range(nb)) if rng.random()<0.5 else ([b for b in range(nb) if rng.random()<0.6] or [0])
        if nb==1: blocks=[0]
        kw['fully_diagonalize']=tuple(blocks)
        for b in blocks:
            sel=np.where(idx==b)[0]
            for i in sel:
                for j in sel:
                    if abs(E[i]-E[j])>1e-9: keep[i,j]=False
    elif mode=='mask':
        d={}
        for b in range(nb):
            if rng.random()<0.7:
                sel=np.where(idx==b)[0]
                m=rng.random((len(sel),len(sel)))<0.5
                Eb=E[sel]; m&=np.abs(Eb[:,None]-Eb[None,:])>1e-9
                d[b]=m; keep[np.ix_(sel,sel)]=~m
        if not d: d={0:np.zeros((sizes[0],sizes[0]),bool)}
        kw['fully_diagonalize']=d
    dE=np.abs(E[:,None]-E[None,:])
    d4=bool((keep & (dE>1e-9)).any())
    return dict(sizes=sizes,idx=idx,E=E,H=H,keep=keep,kw=kw,npar=npar,mode=mode,d4=d4)
def run(case,maxtot=3):
    H=case['H']; npar=case['npar']
    Ht,U,Ui=block_diagonalize(dict(H),subspace_indices=case['idx'],hermitian=False,**case['kw'])
    maxo=(maxtot,)*npar
    rHt,rU,rG=ref_solve(H,case['keep'],maxo,hermitian=False)
    worst=0
    for n in orders_upto(maxo):
        if sum(n)>maxtot: continue
        for S,r in ((Ht,rHt),(U,rU),(Ui,rG)):
            x=full(S,n,case['sizes'])
            if not np.isfinite(x).all(): return ('NONFINITE',n)
            worst=max(worst,abs(x-r[n]).max()/max(1,abs(r[n]).max()))
    return ('ok' if worst<1e-8 else 'MISMATCH',worst)
if __name__=='__main__':
    from collections import Counter
    c=Counter()
    for s in range(int(sys.argv[1]),int(sys.argv[2])):
        rng=np.random.default_rng(s); case=gen(rng)
        try:
            with warnings.catch_warnings():
                warnings.simplefilter('ignore'); r=run(case)
        except Exception as e:
            r=('EXC',type(e).__name__+': '+str(e)[:80])
        key=(r[0],case['mode'],'d4' if case['d4'] else 'nod4')
        c[key]+=1
        if r[0]!='ok' and not case['d4'] and c[key]<=4: print(s,r,case['sizes'],case['E'],case['mode'],case['kw'])
    for k,v in sorted(c.items()): print(k,v)
