import sys; import os; sys.path.insert(0,os.path.dirname(os.path.abspath(__file__)))
from fock import *
a=BosonOp('a'); N=NumberOperator(a)
M=Model([a],d=14)
f=(2+N)**-1
cands=[(Dagger(a)*N, Dagger(a)*f*a**2),(a, Dagger(a)*f*a**2),(Dagger(a)*N,Dagger(a)),(a,Dagger(a)),(a, f*N*a),(a,f*a),(a,f),(a**2,f*a),(Dagger(a),f*a),(f*a,a),(f*a,Dagger(a)),(f*Dagger(a),a)]
for e1,e2 in cands:
    n1=NOF.from_expr(e1,[a]); n2=NOF.from_expr(e2,[a])
    cols=M.safe_cols(5)
    e_from=np.abs(M.nof(n2)-M.expr(e2))[:,cols].max()
    err=np.abs(M.nof(n1*n2)-M.expr(e1)@M.expr(e2))[:,cols].max()
    print(e1,'|',e2,'| from err',round(e_from,6),'mul err',round(err,6),'| n2=',n2.terms,'| prod=',(n1*n2).terms)
