import numpy as np, sympy, warnings
from scipy import sparse
from pymablock import block_diagonalize
def t(label,f):
    with warnings.catch_warnings(record=True) as w:
        warnings.simplefilter('always')
        try:
            r=f(); print(label,'-> returned',r, '| warnings:',[str(x.message)[:60] for x in w])
        except Exception as e:
            print(label,'-> EXC',type(e).__name__,str(e)[:90], '| warnings:',[str(x.message)[:40] for x in w])
rng=np.random.default_rng(0)
def herm(a): return a+a.conj().T
# a. not block diagonal
h0=np.diag([0.,1.,5.,6.]); h0[0,3]=h0[3,0]=0.3
h1=herm(rng.normal(size=(4,4)))
t('nonblockdiag dense',lambda: block_diagonalize([h0,h1],subspace_indices=[0,0,1,1])[0][0,0,2])
t('nonblockdiag sparse',lambda: block_diagonalize([sparse.csr_array(h0),sparse.csr_array(h1)],subspace_indices=[0,0,1,1])[0][0,0,2])
t('nonblockdiag sympy',lambda: block_diagonalize([sympy.Matrix(h0).applyfunc(sympy.nsimplify),sympy.Matrix(h1).applyfunc(lambda x:sympy.nsimplify(x,rational=True))],subspace_indices=[0,0,1,1])[0][0,0,2])
# within-block non-diagonal h0 (not diagonal inside block)
h0b=np.diag([0.,1.,5.,6.]); h0b[0,1]=h0b[1,0]=0.3
t('h0 nondiag inside block dense',lambda: block_diagonalize([h0b,h1],subspace_indices=[0,0,1,1])[0][0,0,2])
# b. shared energy between coupled blocks
h0c=np.diag([0.,1.,1.,6.])
t('shared energy dense',lambda: block_diagonalize([h0c,h1],subspace_indices=[0,0,1,1])[0][0,0,2])
t('shared energy sparse',lambda: block_diagonalize([sparse.csr_array(h0c),sparse.csr_array(h1)],subspace_indices=[0,0,1,1])[0][0,0,2])
x=sympy.Symbol('x')
t('shared energy sympy',lambda: block_diagonalize(sympy.Matrix(np.diag([0,1,1,6]))+x*sympy.Matrix(h1).applyfunc(lambda v:sympy.nsimplify(v,rational=True)),subspace_indices=[0,0,1,1],symbols=[x])[0][0,0,2])
h0d=np.diag([0.,1.,3.,6.,1.,9.])
h1d=herm(rng.normal(size=(6,6)))
t('shared energy 3rd block dense',lambda: block_diagonalize([h0d,h1d],subspace_indices=[0,0,1,1,2,2])[0][0,0,2])
t('shared energy 3rd block U[1,2]',lambda: block_diagonalize([h0d,h1d],subspace_indices=[0,0,1,1,2,2])[1][1,2,1])
# c. eigenvectors not orthonormal
V=np.linalg.qr(rng.normal(size=(4,4)))[0]; Vb=V.copy(); Vb[:,0]*=1.01
H0=V@np.diag([0.,1.,5.,6.])@V.T
t('nonorthonormal vecs',lambda: block_diagonalize([H0,h1],subspace_eigenvectors=[Vb[:,:2],Vb[:,2:]])[0][0,0,2])
t('non-eigen vecs (rotated mixing blocks)',lambda: block_diagonalize([H0,h1],subspace_eigenvectors=[np.linalg.qr(rng.normal(size=(4,4)))[0][:,:2],np.linalg.qr(rng.normal(size=(4,4)))[0][:,2:]])[0][0,0,2])
# d. asymmetric mask hermitian
m=np.zeros((4,4),bool); m[0,2]=True
t('asym mask',lambda: block_diagonalize([np.diag([0.,1.,5.,6.]),h1],fully_diagonalize={0:m})[0][0,0,2])
m2=np.zeros((4,4),bool); m2[0,1]=m2[1,0]=True
t('mask eliminates degenerate',lambda: block_diagonalize([np.diag([0.,0.,5.,6.]),h1],fully_diagonalize={0:m2})[0][0,0,2])
t('mask eliminates degenerate sparse',lambda: block_diagonalize([sparse.csr_array(np.diag([0.,0.,5.,6.])),sparse.csr_array(h1)],fully_diagonalize={0:m2})[0][0,0,2])
# e. non-hermitian symbolic in hermitian mode
t('nonherm sympy',lambda: block_diagonalize(sympy.Matrix([[0,0],[0,1]])+x*sympy.Matrix([[0,1],[2,0]]),subspace_indices=[0,1],symbols=[x])[0][0,0,2])
t('nonherm numeric in hermitian mode',lambda: block_diagonalize([np.diag([0.,1.]),np.array([[0,1.],[2.,0]])],subspace_indices=[0,1])[0][0,0,2])
# f. exclusive options
t('both subspace',lambda: block_diagonalize([h0c,h1],subspace_indices=[0,0,1,1],subspace_eigenvectors=[np.eye(4)[:,:2],np.eye(4)[:,2:]]))
t('custom sylvester + fd',lambda: block_diagonalize([np.diag([0.,1.,5.,6.]),h1],subspace_indices=[0,0,1,1],solve_sylvester=lambda Y,i:Y,fully_diagonalize=(0,)))
