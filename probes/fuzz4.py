import numpy as np, sys, itertools
from collections import Counter
from pymablock.series import BlockSeries, zero
def gen_item(rng, shape, n_inf, maxo=4):
    def one(dim, finite):
        r=rng.random()
        if r<0.35:
            return int(rng.integers(-dim,dim)) if finite else int(rng.integers(0,dim))
        if r<0.6:
            k=int(rng.integers(1,4))
            return [int(x) for x in (rng.integers(-dim,dim,size=k) if finite else rng.integers(0,dim,size=k))]
        a=rng.integers(0,dim+1); b=rng.integers(0,dim+1)
        st=[None,1,2,3][rng.integers(4)]
        if finite and rng.random()<0.3: return slice(None if rng.random()<0.5 else int(min(a,b)), None if True else 0, st)
        return slice(None if rng.random()<0.3 else int(min(a,b)), int(max(a,b)), st)
    return tuple(one(d,True) for d in shape)+tuple(one(maxo+1,False) for _ in range(n_inf))
c=Counter()
for s in range(int(sys.argv[1]),int(sys.argv[2])):
    rng=np.random.default_rng(s)
    shape=tuple(int(x) for x in rng.integers(1,4,size=rng.integers(0,4)))
    n_inf=int(rng.integers(0,3))
    if not shape and not n_inf: continue
    maxo=4
    calls=Counter()
    def ev(*idx):
        calls[idx]+=1
        if sum(idx)%4==0: return zero
        return ('v',)+tuple(int(i) for i in idx)
    S=BlockSeries(eval=ev,shape=shape,n_infinite=n_inf)
    box=shape+(maxo+1,)*n_inf
    dense=np.empty(box,dtype=object)
    for idx in itertools.product(*[range(b) for b in box]):
        dense[idx]=None if sum(idx)%4==0 else ('v',)+idx
    for rep in range(6):
        item=gen_item(rng,shape,n_inf,maxo)
        try:
            exp=dense[item]
        except Exception as e:
            exp=('EXC',type(e).__name__)
        try:
            got=S[item]
        except Exception as e:
            got=('EXC',type(e).__name__)
        def norm(x):
            if isinstance(x,tuple) and x and x[0]=='EXC': return x
            if isinstance(x,np.ma.MaskedArray):
                return ('arr',x.shape,tuple(None if m else v for v,m in zip(x.data.flat,np.ma.getmaskarray(x).flat)))
            if isinstance(x,np.ndarray): return ('arr',x.shape,tuple(x.flat))
            if x is zero: return None
            return x
        ok = norm(got)==norm(exp)
        c['ok' if ok else 'DIFF']+=1
        if not ok and c['DIFF']<=8: print(s,shape,n_inf,item,'got',norm(got),'exp',norm(exp))
    if any(v>1 for v in calls.values()): c['multi-eval']+=1
print(c)
