import numpy as np, sys
from pymablock import block_diagonalize
from pymablock.series import BlockSeries, zero
rng=np.random.default_rng(0)
sizes=[2,3]
E=[np.array([0.,1.]),np.array([5.,6.,8.])]
log=[]
cache={}
def ev(*index):
    log.append(index)
    i,j,*n=index
    n=tuple(n)
    if sum(n)==0:
        return np.diag(E[i]) if i==j else zero
    if max(n)>2: return zero
    key=(min(i,j),max(i,j),n)
    if key not in cache:
        a=rng.normal(size=(sizes[key[0]],sizes[key[1]]))
        if key[0]==key[1]: a=a+a.T
        cache[key]=a
    return cache[key] if i<=j else cache[key].T
for herm in (True,False):
    for npar in (1,2):
        log.clear()
        H=BlockSeries(eval=ev,shape=(2,2),n_infinite=npar)
        Ht,U,Ui=block_diagonalize(H,hermitian=herm)
        print('herm',herm,'npar',npar,'after define:',sorted(set(log)), 'dups',len(log)-len(set(log)))
        log.clear()
        req=(2,) if npar==1 else (1,2)
        Ht[(0,0)+req]
        orders=sorted(set(l[2:] for l in log))
        print('   after Ht[0,0,%s]:'%(req,),orders,'dups',len(log)-len(set(log)), 'violating:',[o for o in orders if any(a>b for a,b in zip(o,req))])
        log.clear()
        U[(0,1)+req]
        print('   then U:', sorted(set(l[2:] for l in log)))
