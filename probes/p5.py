import numpy as np, sys, warnings
import os; sys.path.insert(0,os.path.dirname(os.path.abspath(__file__)))
import cpfix
from util import *
from scipy import sparse
from pymablock import block_diagonalize
from pymablock.linalg import ComplementProjector
def herm(a): return a+a.conj().T
rng=np.random.default_rng(5)
N=8
for cplx in (False,True):
    A=rng.normal(size=(N,N))+(1j*rng.normal(size=(N,N)) if cplx else 0)
    H0=herm(A); H1=herm(rng.normal(size=(N,N))+(1j*rng.normal(size=(N,N)) if cplx else 0))
    E,V=np.linalg.eigh(H0)
    vA=V[:,:2]; vB=V[:,2:]
    # projector tests
    P=ComplementProjector(vA); D=np.eye(N)-vA@vA.conj().T
    x=rng.normal(size=(N,3))+1j*rng.normal(size=(N,3))
    Aop=sparse.linalg.aslinearoperator(H0)
    comp=P@Aop@P; Dc=D@H0@D
    print('cplx',cplx,'P@x',abs(P@x-D@x).max(),'x.T@P',abs(x.T@P-x.T@D).max(),'comp@x',abs(comp@x-Dc@x).max(),'x.T@comp',abs(x.T@comp-x.T@Dc).max(), 'comp.H@x',abs(comp.H@x-Dc.conj().T@x).max(),'P.T@x',abs(P.T@x-D.T@x).max())
    # implicit vs explicit
    He,Ue,Uie=block_diagonalize([H0,H1],subspace_eigenvectors=[vA,vB])
    Hi,Ui,Uii=block_diagonalize([sparse.csr_array(H0),sparse.csr_array(H1)],subspace_eigenvectors=[vA])
    for n in range(5):
        hA=abs(He[0,0,n]-Hi[0,0,n]).max() if n else 0
        uAA=0
        if n:
            a=dense(Ue[0,0,n],(2,2)); b=dense(Ui[0,0,n],(2,2)); uAA=abs(a-b).max()
            # AB block: explicit U^{AB} (2 x 6) in B eigenbasis; implicit is 2xN operator = U^{AB} vB^†
            ab_e=dense(Ue[0,1,n],(2,6))@vB.conj().T
            ab_i=dense(Ui[0,1,n],(2,N))
            uAB=abs(ab_e-ab_i).max()
        else: uAB=0
        print('  n',n,'HAA',hA,'UAA',uAA,'UAB',uAB)
