import numpy as np, sys, warnings, sympy
import os; sys.path.insert(0,os.path.dirname(os.path.abspath(__file__)))
from fuzz1 import *
from pymablock.series import zero, one
def to_sym(a):
    return sympy.Matrix(a.shape[0],a.shape[1],lambda i,j: sympy.nsimplify(a[i,j].real,rational=True)+sympy.I*sympy.nsimplify(a[i,j].imag,rational=True))
def fullsym(S,n,sizes):
    off=np.concatenate([[0],np.cumsum(sizes)]); N=off[-1]; out=np.zeros((N,N),complex)
    for i in range(len(sizes)):
        for j in range(len(sizes)):
            b=S[(i,j,*n)]
            if b is zero: continue
            if b is one: b=np.eye(sizes[i]); 
            else: b=np.array(b.evalf(30).tolist(),dtype=complex)
            out[off[i]:off[i+1],off[j]:off[j+1]]=b
    return out
def run_sym(case,hermitian=True,maxtot=3):
    H={k:np.round(v*4)/4 for k,v in case['H'].items()}   # dyadic rationals
    Hs={k:to_sym(v) for k,v in H.items()}
    Ht,U,Ui=block_diagonalize(Hs,subspace_indices=case['idx'],hermitian=hermitian,**case['kw'])
    npar=case['npar']; maxo=(maxtot,)*npar
    rHt,rU,rG=ref_solve({k:v.astype(complex) for k,v in H.items()},case['keep'],maxo,hermitian=hermitian)
    worst=0
    for n in orders_upto(maxo):
        if sum(n)>maxtot: continue
        for S,r in ((Ht,rHt),(U,rU),(Ui,rG)):
            x=fullsym(S,n,case['sizes'])
            worst=max(worst,abs(x-r[n]).max()/max(1,abs(r[n]).max()))
    return ('ok' if worst<1e-8 else 'MISMATCH',worst)
if __name__=='__main__':
    from collections import Counter
    import time
    c=Counter()
    for s in range(int(sys.argv[1]),int(sys.argv[2])):
        rng=np.random.default_rng(s); case=gen(rng)
        if sum(case['sizes'])>5 or not case['E'].any(): continue
        t=time.time()
        try:
            with warnings.catch_warnings():
                warnings.simplefilter('ignore'); r=run_sym(case,maxtot=3 if case['npar']==1 else 2)
        except Exception as e:
            import traceback
            r=('EXC',type(e).__name__+': '+str(e)[:100])
        key=(r[0],case['fd']); c[key]+=1
        if r[0]!='ok' and c[key]<=3: print(s,r,case['sizes'],case['E'],case['fd'],case['kw'])
    for k,v in sorted(c.items()): print(k,v)
