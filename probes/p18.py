import numpy as np, traceback
from pymablock.algorithm_parsing import series_computation, _parse_algorithm
from pymablock.series import BlockSeries, zero
import ast
def my_algorithm():
    with "B":
        start = 0
        hermitian
        if diagonal:
            "A" + f("B @ C")

    with "C":
        start = "A"
        if offdiagonal:
            "A" + "B" / 2
        "B @ C"

    with "B @ C":
        hermitian

    return "C"
rng=np.random.default_rng(0)
vals={}
def ev(*index):
    if index not in vals: vals[index]=rng.normal(size=(2,2))
    return vals[index]
A=BlockSeries(eval=ev,shape=(2,2),n_infinite=1,name='A')
calls=[]
def f(*args):
    calls.append(args); 
    x=args[0]
    return x
try:
    s,_=series_computation({"A":A},my_algorithm,scope={"f":f})
    print(s["C"][0,0,2])
except Exception:
    traceback.print_exc()
print('f called with', [tuple(type(a).__name__ for a in c) for c in calls][:3])
terms,products,outputs=_parse_algorithm(my_algorithm)
for t in terms:
    print('----',t.name,t.start); print(ast.unparse(t.definition))
