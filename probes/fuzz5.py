import numpy as np, sys, itertools
from collections import Counter
from pymablock.series import BlockSeries, zero, one, cauchy_dot_product
def splits(n,k):
    if k==1: yield (n,); return
    for a in itertools.product(*[range(x+1) for x in n]):
        for s in splits(tuple(x-y for x,y in zip(n,a)),k-1): yield (a,)+s
c=Counter()
for s in range(int(sys.argv[1]),int(sys.argv[2])):
    rng=np.random.default_rng(s)
    k=int(rng.integers(2,5)); n_inf=int(rng.integers(1,4))
    nblocks=[int(rng.integers(1,4)) for _ in range(k+1)]
    # block sizes per "space"
    bsz=[[int(rng.integers(1,3)) for _ in range(nb)] for nb in nblocks]
    sq = rng.random()<0.4
    if sq:
        nblocks=[nblocks[0]]*(k+1); bsz=[bsz[0]]*(k+1)
    vals=[{} for _ in range(k)]
    def mk(f):
        def ev(*idx):
            i,j,*n=idx; n=tuple(n)
            key=(i,j,n)
            if key not in vals[f]:
                r=rng.random()
                if r<0.3: v=zero
                elif r<0.4 and sq and i==j and bsz[f][i]==bsz[f+1][j]: v=one
                else: v=rng.normal(size=(bsz[f][i],bsz[f+1][j]))+1j*rng.normal(size=(bsz[f][i],bsz[f+1][j]))
                vals[f][key]=v
            return vals[f][key]
        return ev
    fs=[BlockSeries(eval=mk(f),shape=(nblocks[f],nblocks[f+1]),n_infinite=n_inf) for f in range(k)]
    P=cauchy_dot_product(*fs)
    maxo=tuple(int(x) for x in rng.integers(0,3,size=n_inf))
    def dense(f,i,j,n):
        v=fs[f][(i,j)+n]
        if v is zero: return None
        if v is one: return np.eye(bsz[f][i])
        return v
    for i in range(nblocks[0]):
        for j in range(nblocks[k]):
            try:
                got=P[(i,j)+maxo]
            except RuntimeError as e:
                c['one-sum TypeError' if 'One' in str(e.__cause__) or 'One' in str(e.__cause__.__cause__ if e.__cause__ else '') else 'EXC']+=1; continue
            except TypeError as e:
                c['one-sum TypeError']+=1; continue
            exp=None
            for mids in itertools.product(*[range(nblocks[f]) for f in range(1,k)]):
                chain=(i,)+mids+(j,)
                for sp in splits(maxo,k):
                    t=None; dead=False
                    for f in range(k):
                        v=dense(f,chain[f],chain[f+1],sp[f])
                        if v is None: dead=True;break
                        t=v if t is None else t@v
                    if dead: continue
                    exp=t if exp is None else exp+t
            if exp is None:
                ok = got is zero
            else:
                g=np.eye(bsz[0][i]) if got is one else got
                ok = (g is not zero) and np.allclose(g,exp,atol=1e-10)
            c['ok' if ok else 'DIFF']+=1
            if not ok and c['DIFF']<5: print(s,k,n_inf,maxo,(i,j),type(got),got if got is zero or got is one else abs(got-exp).max())
print(c)
