import numpy as np, sys, warnings, itertools, time
import os; sys.path.insert(0,os.path.dirname(os.path.abspath(__file__)))
import cpfix
from collections import Counter
from scipy import sparse
from scipy.sparse.linalg import LinearOperator
from pymablock import block_diagonalize
from pymablock.series import BlockSeries, zero, one
warnings.simplefilter('ignore')
def herm(a): return a+a.conj().T
def val(x):
    if x is zero: return 'zero'
    if x is one: return 'one'
    if isinstance(x,LinearOperator): return x@np.eye(x.shape[1])
    if sparse.issparse(x): return x.toarray()
    return np.asarray(x)
def same(a,b):
    if isinstance(a,str) or isinstance(b,str): return isinstance(a,str) and isinstance(b,str) and a==b
    return a.shape==b.shape and np.array_equal(a,b)
rng=np.random.default_rng(0)
N=5; idx=[0,0,1,1,2]; E=np.array([0.,1.,5.,5.,9.])
h0=np.diag(E); h1=herm(rng.normal(size=(N,N))); h2=herm(rng.normal(size=(N,N)))
A=herm(rng.normal(size=(8,8))); Ev,V=np.linalg.eigh(A); B=herm(rng.normal(size=(8,8)))
modes={
 'dense3':lambda: block_diagonalize([h0,h1,h2],subspace_indices=idx),
 'fd':lambda: block_diagonalize([h0,h1],subspace_indices=idx,fully_diagonalize=(0,)),
 'sparse':lambda: block_diagonalize([sparse.csr_array(h0),sparse.csr_array(h1)],subspace_indices=idx),
 'nonherm':lambda: block_diagonalize([h0,h1+0.3*rng.normal(size=(N,N))*0+np.triu(h2)],subspace_indices=idx,hermitian=False),
 'implicit':lambda: block_diagonalize([sparse.csr_array(A),sparse.csr_array(B)],subspace_eigenvectors=[V[:,:2],V[:,2:3]]),
}
res=Counter()
for name,mk in modes.items():
    t=time.time()
    o=mk(); nb=o[0].shape[0]; ninf=o[0].n_infinite
    ords=[(n,) for n in range(3)] if ninf==1 else [(a,b) for a in range(2) for b in range(2)]
    reqs=[(s,i,j)+n for s in range(3) for i in range(nb) for j in range(nb) for n in ords]
    canon={}
    for r in reqs:
        o=mk(); canon[r]=val(o[r[0]][r[1:]])
    # ordered pairs
    for x in reqs:
        for y in reqs:
            o=mk(); o[x[0]][x[1:]]; v=val(o[y[0]][y[1:]])
            if same(v,canon[y]): res[name,'pair ok']+=1
            else:
                close = (not isinstance(v,str)) and (not isinstance(canon[y],str)) and np.allclose(v,canon[y],rtol=1e-12,atol=1e-14)
                res[name,'pair ULP' if close else 'pair BAD']+=1
                if not close and res[name,'pair BAD']<3: print(name,x,y)
    print(name,len(reqs),'reqs',round(time.time()-t,1),'s')
print(dict(res))
