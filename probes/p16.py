import numpy as np, sympy, warnings, sys
import os; sys.path.insert(0,os.path.dirname(os.path.abspath(__file__)))
from util import *
from scipy import sparse
from pymablock import block_diagonalize, operator_to_BlockSeries
from pymablock.series import BlockSeries, zero
warnings.simplefilter('ignore')
rng=np.random.default_rng(3)
def herm(a): return a+a.conj().T
N=5; idx=np.array([0,1,0,1,1]); sizes=[2,3]
E=np.array([0.,4.,1.,6.,7.])
h0=np.diag(E); h1=herm(rng.normal(size=(N,N))+1j*rng.normal(size=(N,N))); h2=herm(rng.normal(size=(N,N)))
def outs(res,orders,sizes=sizes):
    return [full(S,n,sizes) for S in res for n in orders]
orders=[(0,0),(1,0),(0,1),(1,1),(2,0),(2,1)]
base=outs(block_diagonalize([h0,h1,h2],subspace_indices=idx),orders)
def cmp(label,res,sizes=sizes,perm=None):
    o=outs(res,orders,sizes)
    print(label, max(abs(a-b).max() for a,b in zip(o,base)))
cmp('dict',block_diagonalize({(0,0):h0,(1,0):h1,(0,1):h2},subspace_indices=idx))
x,y=sympy.symbols('x y',real=True)
cmp('dict sym keys',block_diagonalize({sympy.S.One:h0,x:h1,y:h2},subspace_indices=idx))
cmp('sparse',block_diagonalize([sparse.csr_array(h0),sparse.csr_array(h1),sparse.csr_array(h2)],subspace_indices=idx))
cmp('mixed sparse/dense',block_diagonalize([h0,sparse.csr_array(h1),h2],subspace_indices=idx))
# eigenvectors designating the same blocks
I=np.eye(N)
cmp('eigvecs',block_diagonalize([h0,h1,h2],subspace_eigenvectors=[I[:,idx==0],I[:,idx==1]]))
# nested block lists
p=np.argsort(idx,kind='stable')
def blocks(h):
    hp=h[np.ix_(p,p)]
    return [[hp[:2,:2],hp[:2,2:]],[hp[2:,:2],hp[2:,2:]]]
cmp('block lists',block_diagonalize([blocks(h0),blocks(h1),blocks(h2)]))
# BlockSeries
def ev(*index):
    i,j,*n=index; n=tuple(n)
    d={(0,0):h0,(1,0):h1,(0,1):h2}
    if n not in d: return zero
    b=blocks(d[n])[i][j]
    return zero if not np.any(b) else b
cmp('BlockSeries',block_diagonalize(BlockSeries(eval=ev,shape=(2,2),n_infinite=2)))
# rotated eigenbasis
Q=np.linalg.qr(rng.normal(size=(N,N))+1j*rng.normal(size=(N,N)))[0]
H0r,H1r,H2r=[Q@h[np.ix_(p,p)]@Q.conj().T for h in (h0,h1,h2)]
cmp('rotated basis',block_diagonalize([H0r,H1r,H2r],subspace_eigenvectors=[Q[:,:2],Q[:,2:]]))
# operator_to_BlockSeries
A=rng.normal(size=(N,N))+1j*rng.normal(size=(N,N))
S=operator_to_BlockSeries([A],subspace_eigenvectors=[Q[:,:2],Q[:,2:]])
print('op2BS',abs(full(S,(),[2,3])-Q.conj().T@A@Q).max())
