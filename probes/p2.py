import numpy as np, sys
import os; sys.path.insert(0,os.path.dirname(os.path.abspath(__file__)))
from ref import *
from pymablock import block_diagonalize
from util import full as _full
rng=np.random.default_rng(1)
N=5; idx=[0,0,0,1,1]
E=np.array([0.,1.,2.5,7.,9.])
def herm(a): return a+a.conj().T
H1=herm(rng.normal(size=(N,N))+1j*rng.normal(size=(N,N)))
for herm_in in (True,False):
  P = H1 if herm_in else rng.normal(size=(N,N))+1j*rng.normal(size=(N,N))
  for hflag in ([True,False] if herm_in else [False]):
    Ht,U,Ui=block_diagonalize([np.diag(E),P],subspace_indices=idx,hermitian=hflag)
    keep=np.equal.outer(np.array(idx),np.array(idx))
    rHt,rU,rG=ref_solve({(0,):np.diag(E).astype(complex),(1,):P},keep,(4,),hermitian=hflag)
    full=lambda S,n:_full(S,n,[3,2])
    for n in range(5):
        print(herm_in,hflag,n, abs(full(Ht,n)-rHt[(n,)]).max(), abs(full(U,n)-rU[(n,)]).max(), abs(full(Ui,n)-rG[(n,)]).max())
