import numpy as np
from pymablock.series import BlockSeries, zero
calls=[]
def ev(*idx):
    calls.append(idx)
    i,j,n=idx
    if (i+j+n)%3==0: return zero
    return 100*i+10*j+n
S=BlockSeries(eval=ev,shape=(2,3),n_infinite=1)
def tryit(item):
    try:
        r=S[item]
        print(item,'->',r if not hasattr(r,'shape') else (r.shape,r.tolist()))
    except Exception as e:
        print(item,'-> EXC',type(e).__name__,e)
tryit((0,1,-1))
tryit((0,1,[-1]))
tryit((0,1,slice(None,-1)))
tryit((0,1,slice(-2,2)))
tryit((-1,-1,2))
tryit((slice(None),[0,2],slice(1,4,2)))
tryit(([0,1],[0,2],[1,2]))
tryit((0,1,slice(3,1)))
tryit((0,1,slice(0,4,-1)))
tryit((0,5,1))
tryit((0,1,np.int64(2)))
tryit((0,1,True))
tryit((Ellipsis,2))
tryit((0,1,None))
v=S[0]; print(type(v))
v=S[0,1]; print(type(v), v[2])
v=S[:, [0,2]]; print(v.shape, v[1,1,2], v[:,:,2])
v=S[-1,-1]; print(v[2], S[1,2,2])
