import sympy
from sympy.physics.quantum import Dagger
from sympy.physics.quantum.boson import BosonOp
from sympy.physics.quantum.fermion import FermionOp
from pymablock.number_ordered_form import NumberOrderedForm as NOF, NumberOperator
a=BosonOp('a'); N=NumberOperator(a)
x=NOF.from_expr(N*a**2)
y=NOF.from_expr(Dagger(a))
print('(N a^2) a† =', (x*y))
print('expected: N a^2 a† = N a (a a†)= N a (N+1) = N (N+2) a ... ', )
# direct: a^2 a† = a (N+1) = (N+2) a ; so N a^2 a† = N (N+2) a  + ... careful: a^2 a† = a(a a†)=a(N+1)=(N+2)a. so N*(N+2)*a... plus? a^2 a† = a† a^2 + 2a = ... fine
print('factor by factor:', NOF.from_expr(N*a**2*Dagger(a)))
c1,c2,c3=FermionOp('c1'),FermionOp('c2'),FermionOp('c3')
l=NOF.from_expr(Dagger(c1))
r=NOF.from_expr(c2*c1)   # two annihilators in right operand
print('c1† * (c2 c1) =', l*r, ' ; via expr:', NOF.from_expr(Dagger(c1)*c2*c1))
l=NOF.from_expr(c3)
print('c3 * (c2 c1) =', l*r, ' ; via expr:', NOF.from_expr(c3*c2*c1))
l=NOF.from_expr(Dagger(c3))
print('c3† * (c2 c1) =', l*r, ' ; via expr:', NOF.from_expr(Dagger(c3)*c2*c1))
print('r terms', r.terms, NOF.from_expr(c1*c2).terms)
