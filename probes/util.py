import numpy as np
from scipy import sparse
from pymablock.series import zero, one
def dense(b, shape):
    if b is zero: return np.zeros(shape,complex)
    if b is one: return np.eye(shape[0],dtype=complex)
    if sparse.issparse(b): return b.toarray().astype(complex)
    if hasattr(b,'shape') and not isinstance(b,np.ndarray):
        try:
            return np.array(b.tolist(),dtype=complex)
        except Exception:
            return b @ np.eye(shape[1],dtype=complex)
    return np.asarray(b,dtype=complex)
def full(S, n, sizes):
    if not isinstance(n,tuple): n=(n,)
    off=np.concatenate([[0],np.cumsum(sizes)])
    N=off[-1]; out=np.zeros((N,N),complex)
    for i in range(len(sizes)):
        for j in range(len(sizes)):
            out[off[i]:off[i+1],off[j]:off[j+1]]=dense(S[(i,j,*n)],(sizes[i],sizes[j]))
    return out
