import sys; import os; sys.path.insert(0,os.path.dirname(os.path.abspath(__file__)))
from fock import *
from collections import Counter
a=BosonOp('a'); b=BosonOp('b'); l=LadderOp('l'); c1,c2=FermionOp('c1'),FermionOp('c2'); s=pauli.SigmaMinus('s')
ALL=[a,b,l,s,c1,c2]
N=NumberOperator
def rand_factor(rng,ops):
    r=rng.random()
    gens=[]
    for o in ops:
        if isinstance(o,pauli.SigmaMinus): gens+= [o,pauli.SigmaPlus(o.name),pauli.SigmaX(o.name),pauli.SigmaY(o.name),pauli.SigmaZ(o.name)]
        else: gens+=[o,Dagger(o)]
    if r<0.6: return gens[rng.integers(len(gens))],1
    if r<0.75:
        inf=[o for o in ops if isinstance(o,(BosonOp,LadderOp))]
        if not inf: return gens[rng.integers(len(gens))],1
        o=inf[rng.integers(len(inf))]; o=o if rng.random()<0.5 else Dagger(o); p=int(rng.integers(2,4)); return o**p,p
    # number-dependent coefficient
    n=N(ops[rng.integers(len(ops))])
    k=rng.integers(3)
    if k==0: return n,0
    if k==1: return (n+2)**-1,0
    return n**2+3,0
def rand_expr(rng,ops):
    terms=[]
    deg=0
    for _ in range(rng.integers(1,3)):
        fs=[rand_factor(rng,ops) for _ in range(rng.integers(1,4))]
        terms.append(sympy.Rational(int(rng.integers(1,5)),int(rng.integers(1,4)))*sympy.Mul(*[f for f,_ in fs]))
        deg=max(deg,sum(d for _,d in fs))
    return sympy.Add(*terms),deg
c=Counter()
import warnings; warnings.simplefilter('ignore')
for seed in range(int(sys.argv[1]),int(sys.argv[2])):
    rng=np.random.default_rng(seed)
    from pymablock.number_ordered_form import generator_types
    ops=sorted([ALL[i] for i in rng.choice(len(ALL),size=rng.integers(1,4),replace=False)],key=lambda op:(generator_types.index(type(op)),str(op.name)))
    nb=sum(isinstance(o,BosonOp) for o in ops)
    M=Model(ops,d=11 if nb<2 else 8,L=9)
    (e1,d1),(e2,d2),(e3,d3)=rand_expr(rng,ops),rand_expr(rng,ops),rand_expr(rng,ops)
    if d1+d2+d3>7: continue
    try:
        n1,n2,n3=[NOF.from_expr(e,ops) for e in (e1,e2,e3)]
    except Exception as ex:
        c['fromexpr EXC '+type(ex).__name__]+=1
        if c['fromexpr EXC '+type(ex).__name__]<3: print('EXC',e1,'|',e2,'|',e3,ex)
        continue
    m1,m2,m3=M.expr(e1),M.expr(e2),M.expr(e3)
    def chk(label,nof,mat,deg):
        cols=M.safe_cols(deg)
        err=np.abs(M.nof(nof)-mat)[:,cols].max()
        ok=err<1e-8*max(1,np.abs(mat).max())
        c[label+(' ok' if ok else ' BAD')]+=1
        if not ok and c[label+' BAD']<=3: print(seed,label,'err',err,'|',e1,'|',e2,'|',e3)
    try:
        chk('from',n1,m1,d1)
        chk('mul',n1*n2,m1@m2,d1+d2)
        chk('add',n1+n2,m1+m2,max(d1,d2))
        chk('sub',n1-n2,m1-m2,max(d1,d2))
        chk('adj',Dagger(n1),m1.conj().T,d1)
        chk('assoc',(n1*n2)*n3,m1@m2@m3,d1+d2+d3)
        chk('assocR',n1*(n2*n3),m1@m2@m3,d1+d2+d3)
        chk('distrib',n1*(n2+n3),m1@(m2+m3),d1+max(d2,d3))
        chk('pow2',n1**2,m1@m1,2*d1)
        chk('as_expr',NOF.from_expr(n1.as_expr(),ops),m1,d1)
        chk('as_expr_direct',n1,M.expr(n1.as_expr()),d1)
    except Exception as ex:
        c['op EXC '+type(ex).__name__]+=1
        if c['op EXC '+type(ex).__name__]<3:
            import traceback; traceback.print_exc(); print(seed,e1,'|',e2,'|',e3)
for k,v in sorted(c.items()): print(k,v)
