import sys, time, warnings; import os; sys.path.insert(0,os.path.dirname(os.path.abspath(__file__)))
from fock import *
from ref import *
from pymablock import block_diagonalize
from pymablock.series import zero
def check(H0,H1,ops,maxn=3,d=8,lowmax=1,label=''):
    M=Model(ops,d=d)
    g=sympy.Symbol('g',real=True)
    Ht,U,Ui=block_diagonalize(H0+g*H1,symbols=[g])
    h0=M.expr(H0); h1=M.expr(H1)
    assert np.allclose(h0,np.diag(np.diag(h0)))
    E=np.diag(h0).real
    keep=np.eye(M.D,dtype=bool)
    with np.errstate(all='ignore'):
        rHt,rU,rG=ref_solve({(0,):np.diag(E).astype(complex),(1,):h1},keep,(maxn,))
    low=np.where((M.occ<=lowmax).all(axis=1))[0]
    for n in range(maxn+1):
        t=time.time()
        try:
            v=Ht[0,0,n]; u=U[0,0,n]
        except Exception as ex:
            print(label,'order',n,'EXC',type(ex).__name__,str(ex)[:100]); break
        def mat(v):
            if v is zero: return np.zeros((M.D,M.D))
            if repr(v)=='one': return np.eye(M.D)
            return M.expr(sympy.sympify(v),{g:1})
        dv=np.abs(mat(v)-rHt[(n,)])[np.ix_(low,low)].max()
        du=np.abs(mat(u)-rU[(n,)])[np.ix_(low,low)].max()
        print(label,'order',n,'dH',round(dv,10),'dU',round(du,10),'t',round(time.time()-t,2))
if __name__!='__main__': sys.exit() if False else None
a=BosonOp('a'); b=BosonOp('b'); c1,c2,c3=FermionOp('c1'),FermionOp('c2'),FermionOp('c3')
N=NumberOperator
warnings.simplefilter('ignore')
if __name__=='__main__':
    check(sympy.Rational(3,2)*N(a)+sympy.Rational(47,10)*N(b), Dagger(a)*b+Dagger(b)*a+a+Dagger(a)+Dagger(a)**2+a**2, [a,b], label='bosons2', d=9)
    check(1*N(c1)+sympy.Rational(23,10)*N(c2)+sympy.Rational(51,10)*N(c3), c1*c2+Dagger(c2)*Dagger(c1)+c2*c3+Dagger(c3)*Dagger(c2)+Dagger(c1)*c3+Dagger(c3)*c1, [c1,c2,c3], label='ferm3pair')
    check(1*N(c1)+sympy.Rational(23,10)*N(c2)+sympy.Rational(51,10)*N(c3), Dagger(c1)*c2+Dagger(c2)*c1+Dagger(c2)*c3+Dagger(c3)*c2, [c1,c2,c3], label='ferm3hop')
    check(sympy.Rational(3,2)*N(a)+sympy.Rational(47,10)*N(c1), (Dagger(a)+a)*(Dagger(c1)+c1)+ (a+Dagger(a)), [a,c1], label='bos-ferm', d=9)
