import numpy as np, sys, warnings
import os; sys.path.insert(0,os.path.dirname(os.path.abspath(__file__)))
from util import *
from pymablock import block_diagonalize
warnings.simplefilter('ignore')
rng=np.random.default_rng(0)
N=5; idx=[0,0,0,1,1]; sizes=[3,2]; E=np.array([0.,1.,2.5,7.,9.])
A=rng.normal(size=(N,N))+1j*rng.normal(size=(N,N)); B=rng.normal(size=(N,N))+1j*rng.normal(size=(N,N))
h0=np.diag(E)
two=block_diagonalize([h0,A,B],subspace_indices=idx,hermitian=False)
one=block_diagonalize([h0,A+B],subspace_indices=idx,hermitian=False)
sc=block_diagonalize([h0,2*A,0.5j*B],subspace_indices=idx,hermitian=False)
perm=block_diagonalize([h0,B,A],subspace_indices=idx,hermitian=False)
w=0;ws=0;wp=0
for S2,S1,Ss,Sp in zip(two,one,sc,perm):
    for n in range(4):
        m=sum(full(S2,(a,n-a),sizes) for a in range(n+1))
        w=max(w,abs(m-full(S1,(n,),sizes)).max())
    for a in range(3):
        for b in range(3):
            ws=max(ws,abs(full(Ss,(a,b),sizes)-(2**a)*(0.5j)**b*full(S2,(a,b),sizes)).max())
            wp=max(wp,abs(full(Sp,(b,a),sizes)-full(S2,(a,b),sizes)).max())
print('merge',w,'scale',ws,'perm',wp)
# shift / conj / permutation of basis
sh=block_diagonalize([h0+3*np.eye(N),A],subspace_indices=idx,hermitian=False)
base=block_diagonalize([h0,A],subspace_indices=idx,hermitian=False)
cj=block_diagonalize([h0,A.conj()],subspace_indices=idx,hermitian=False)
print('shift',max(abs(full(a,(n,),sizes)-full(b,(n,),sizes)).max() for a,b in zip(sh,base) for n in range(1,4)),
      'conj',max(abs(full(a,(n,),sizes)-full(b,(n,),sizes).conj()).max() for a,b in zip(cj,base) for n in range(1,4)))
