import numpy as np, sys, warnings, itertools, traceback
import os; sys.path.insert(0,os.path.dirname(os.path.abspath(__file__)))
from ref import *; from util import *
from scipy import sparse
from pymablock import block_diagonalize
def herm(a): return a+a.conj().T
def gen(rng):
    nb=rng.integers(1,4)
    sizes=[int(rng.integers(1,4)) for _ in range(nb)]
    N=sum(sizes)
    idx=np.repeat(np.arange(nb),sizes)
    # energies: integer levels; allow degeneracy only within block
    E=np.zeros(N)
    base=0
    for b in range(nb):
        lv=rng.integers(0,3,size=sizes[b])  # within-block levels, may repeat
        E[idx==b]=base+lv*1.0
        base+=5
    npar=int(rng.integers(1,3))
    cplx=rng.random()<0.5
    H={}
    z=(0,)*npar
    H[z]=np.diag(E)
    keys=[tuple(int(i==k) for i in range(npar)) for k in range(npar)]
    if rng.random()<0.4: keys.append(tuple(int(x) for x in rng.integers(0,3,size=npar)))
    for k in keys:
        if k==z: continue
        a=rng.normal(size=(N,N))+(1j*rng.normal(size=(N,N)) if cplx else 0)
        H[k]=herm(a)
    fd=rng.choice(['none','tuple','mask'])
    keep=np.equal.outer(idx,idx)
    kw={}
    if nb==1 and fd=='none': fd='tuple'
    if fd=='tuple':
        blocks=[b for b in range(nb) if rng.random()<0.6] or [0]
        kw['fully_diagonalize']=tuple(blocks)
        for b in blocks:
            sel=np.where(idx==b)[0]
            for i in sel:
                for j in sel:
                    if abs(E[i]-E[j])>1e-9: keep[i,j]=False
    elif fd=='mask':
        blocks=[b for b in range(nb) if rng.random()<0.6] or [0]
        d={}
        for b in blocks:
            sel=np.where(idx==b)[0]
            m=rng.random((len(sel),len(sel)))<0.5
            m=m|m.T
            Eb=E[sel]
            m&=np.abs(Eb[:,None]-Eb[None,:])>1e-9
            d[b]=m
            keep[np.ix_(sel,sel)]=~m
        kw['fully_diagonalize']=d
    fmt=rng.choice(['dense','sparse'])
    return dict(sizes=sizes,idx=idx,E=E,H=H,keep=keep,kw=kw,fmt=fmt,npar=npar,fd=fd)
def run(case,hermitian=True,maxtot=3):
    H=case['H']; npar=case['npar']
    Hin={k:(sparse.csr_array(v) if case['fmt']=='sparse' else v) for k,v in H.items()}
    Ht,U,Ui=block_diagonalize(Hin,subspace_indices=case['idx'],hermitian=hermitian,**case['kw'])
    maxo=(maxtot,)*npar
    rHt,rU,rG=ref_solve({k:v.astype(complex) for k,v in H.items()},case['keep'],maxo,hermitian=hermitian)
    worst=0
    for n in orders_upto(maxo):
        if sum(n)>maxtot: continue
        a=full(Ht,n,case['sizes']); b=full(U,n,case['sizes']); c=full(Ui,n,case['sizes'])
        sc=max(1,abs(rU[n]).max(),abs(rHt[n]).max())
        for x,y in ((a,rHt[n]),(b,rU[n]),(c,rG[n])):
            if not np.isfinite(x).all(): return ('NONFINITE',n)
            worst=max(worst,abs(x-y).max()/sc)
    return ('ok' if worst<1e-8 else 'MISMATCH',worst)
if __name__=='__main__':
    seed0=int(sys.argv[1]); n=int(sys.argv[2]); hermitian = sys.argv[3]=='1'
    from collections import Counter
    c=Counter()
    for s in range(seed0,seed0+n):
        rng=np.random.default_rng(s)
        case=gen(rng)
        try:
            with warnings.catch_warnings():
                warnings.simplefilter('ignore')
                r=run(case,hermitian)
        except Exception as e:
            r=('EXC',type(e).__name__+': '+str(e)[:80])
        key=(r[0],case['fmt'],case['fd'])
        c[key]+=1
        if r[0]!='ok' and c[key]<=3:
            print(s,r,case['sizes'],case['E'],case['fd'],case['fmt'],case['npar'])
    for k,v in sorted(c.items()): print(k,v)
