import sys; import os; sys.path.insert(0,os.path.dirname(os.path.abspath(__file__)))
from fock import *
a=BosonOp('a'); b=BosonOp('b'); c1,c2,c3=FermionOp('c1'),FermionOp('c2'),FermionOp('c3'); s=pauli.SigmaMinus('s')
M=Model([a,b,s,c1,c2,c3],d=8)
# sanity CAR/CCR
A=M.ann
print('CAR', np.abs(A[c1]@A[c2]+A[c2]@A[c1]).max(), np.abs(A[c1]@A[c1].T+A[c1].T@A[c1]-np.eye(M.D)).max(), '[s,c]',np.abs(A[s]@A[c1]-A[c1]@A[s]).max())
rng=np.random.default_rng(0)
gens=[a,Dagger(a),b,Dagger(b),c1,Dagger(c1),c2,Dagger(c2),c3,Dagger(c3),pauli.SigmaMinus('s'),pauli.SigmaPlus('s'),NumberOperator(a),NumberOperator(c1)]
bad=0
for t in range(300):
    k1=rng.integers(1,4); k2=rng.integers(1,4)
    w1=[gens[i] for i in rng.integers(0,len(gens),k1)]; w2=[gens[i] for i in rng.integers(0,len(gens),k2)]
    e1=sympy.Mul(*w1); e2=sympy.Mul(*w2)
    try:
        n1=NOF.from_expr(e1,M.ops); n2=NOF.from_expr(e2,M.ops)
    except Exception as ex:
        print('fromexpr exc',e1,e2,ex); continue
    cols=M.safe_cols(k1+k2)
    m1=M.expr(e1); m2=M.expr(e2)
    errs={}
    errs['from1']=np.abs(M.nof(n1)-m1)[:,cols].max()
    errs['prod']=np.abs(M.nof(n1*n2)-m1@m2)[:,cols].max()
    errs['adj']=np.abs(M.nof(Dagger(n1))-m1.conj().T)[:,M.safe_cols(k1)].max()
    if max(errs.values())>1e-9:
        bad+=1
        if bad<=12: print(e1,' | ',e2, {k:round(v,3) for k,v in errs.items()})
print('bad',bad)
