import numpy as np, sys, warnings, time
import os; sys.path.insert(0,os.path.dirname(os.path.abspath(__file__)))
from util import *
from scipy import sparse
from pymablock import block_diagonalize
import pymablock.block_diagonalization as bd
def herm(a): return a+a.conj().T
rng=np.random.default_rng(5)
N=12
for cplx in (False,True):
    H0=herm(rng.normal(size=(N,N))+(1j*rng.normal(size=(N,N)) if cplx else 0)); H1=herm(rng.normal(size=(N,N))+(1j*rng.normal(size=(N,N)) if cplx else 0))
    E,V=np.linalg.eigh(H0)
    vA=V[:,:2]; vB=V[:,2:]
    He,Ue,Uie=block_diagonalize([H0,H1],subspace_eigenvectors=[vA,vB])
    for opts in ({},{'atol':1e-8},{'atol':1e-8,'auxiliary_vectors':V[:,2:5]}):
        t=time.time()
        with warnings.catch_warnings(record=True) as w:
            warnings.simplefilter('always')
            Hi,Ui,Uii=block_diagonalize([sparse.csr_array(H0),sparse.csr_array(H1)],subspace_eigenvectors=[vA],direct_solver=False,solver_options=opts)
            r=[abs(He[0,0,n]-Hi[0,0,n]).max() for n in range(1,4)]
        print('cplx',cplx,list(opts),r,'t',round(time.time()-t,2),[str(x.message)[:50] for x in w][:2])
    # direct solve_sylvester residual check
    ss=bd.solve_sylvester_direct(sparse.csr_array(H0),[vA])
    Y=rng.normal(size=(2,N))+1j*rng.normal(size=(2,N))
    Vs=ss(Y,(0,1))
    P=np.eye(N)-vA@vA.conj().T
    # equation: H0^(A) V - V H0^(B) = Y P ; H0^(B)= P H0 P
    res=np.diag(E[:2])@Vs-Vs@(P@H0@P)-Y@P
    print('  direct residual',abs(res).max(), 'V in range P', abs(Vs@vA).max())
