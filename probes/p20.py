import numpy as np, sys, warnings, itertools
from collections import Counter
from pymablock import block_diagonalize
from pymablock.block_diagonalization import solve_sylvester_diagonal
from pymablock.series import BlockSeries, zero, one, PENDING
warnings.simplefilter('ignore')
class Inject(Exception): pass
class Mat:
    """user-defined matrix element type; multiplication is a user callback"""
    ctl=None
    def __init__(self,a): self.a=np.asarray(a)
    def __matmul__(self,o):
        Mat.ctl.tick('mul')
        return Mat(self.a@o.a)
    def __add__(self,o): return Mat(self.a+o.a)
    def __sub__(self,o): return Mat(self.a-o.a)
    def __neg__(self): return Mat(-self.a)
    def __truediv__(self,k): return Mat(self.a/k)
    def __mul__(self,k): return Mat(self.a*k)
    __rmul__=__mul__
    def adjoint(self): return Mat(self.a.conj().T)
class Ctl:
    def __init__(self,fault_at=None,exc=None): self.n=0; self.fault_at=set(fault_at or []); self.exc=exc; self.kinds=[]
    def tick(self,kind):
        k=self.n; self.n+=1; self.kinds.append(kind)
        if k in self.fault_at:
            raise self.exc(f'injected at {k} in {kind}')
def problem(seed,nb=2,herm=True):
    rng=np.random.default_rng(seed)
    sizes=[2]*nb
    E=[np.array([0.,1.])+5*b for b in range(nb)]
    P={}
    for i in range(nb):
        for j in range(i,nb):
            a=rng.normal(size=(2,2))
            if i==j: a=a+a.T
            P[i,j]=a; P[j,i]=a.T
    return sizes,E,P
def build(ctl,sizes,E,P,herm=True):
    Mat.ctl=ctl
    nb=len(sizes)
    def ev(*index):
        ctl.tick('H')
        i,j,n=index
        if n==0: return Mat(np.diag(E[i])) if i==j else zero
        if n==1: return Mat(P[i,j])
        return zero
    H=BlockSeries(eval=ev,shape=(nb,nb),n_infinite=1,name='H')
    base=solve_sylvester_diagonal(tuple(E))
    def ss(Y,index):
        ctl.tick('sylv')
        if Y is zero: return zero
        return Mat(base(Y.a,index))
    return block_diagonalize(H,solve_sylvester=ss,hermitian=herm)
def val(x):
    if x is zero: return 'zero'
    if x is one: return 'one'
    return x.a
def same(a,b):
    if isinstance(a,str) or isinstance(b,str): return isinstance(a,str) and isinstance(b,str) and a==b
    return np.array_equal(a,b)
def all_series(S):
    return S.eval.__globals__['series']
def has_pending(S):
    out=[]
    for name,s in all_series(S).items():
        for k,v in s._data.items():
            if v is PENDING: out.append((name,k))
    return out
res=Counter()
for nb,herm in ((2,True),(3,True),(2,False),(3,False)):
    sizes,E,P=problem(1,nb,herm)
    reqs=[(s,i,j,n) for s in range(3) for i in range(nb) for j in range(nb) for n in range(3)]
    # clean canonical values
    ctl=Ctl(); outs=build(ctl,sizes,E,P,herm)
    ctl.n=0
    target=(0,0,0,2)
    canon={}
    for r in reqs: canon[r]=val(outs[r[0]][r[1:]])
    # count callbacks for target in fresh
    ctl=Ctl(); outs=build(ctl,sizes,E,P,herm); n_def=ctl.n
    outs[target[0]][target[1:]]; N=ctl.n
    print('nb',nb,'herm',herm,'callbacks: define',n_def,'target',N-n_def, Counter(ctl.kinds))
    for exc in (Inject,RuntimeError,KeyboardInterrupt):
        for k in range(n_def,N):
            ctl=Ctl([k],exc); outs=build(ctl,sizes,E,P,herm)
            try:
                outs[target[0]][target[1:]]
                res['no-raise']+=1; print('fault not raised',k); continue
            except BaseException as e:
                if not isinstance(e,exc): res['wrong exc type']+=1; print('wrong type',type(e),e)
            p=has_pending(outs[0])
            if p: res['PENDING left']+=1; print('pending',nb,herm,exc.__name__,k,p[:3])
            bad=[r for r in reqs if not same(val(outs[r[0]][r[1:]]),canon[r])]
            if bad: res['wrong after fault']+=1; print('bad',nb,herm,exc.__name__,k,bad[:3])
            else: res['ok']+=1
print(res)
