import sys, numpy as np, warnings
import os; sys.path.insert(0,os.path.dirname(os.path.abspath(__file__))); pass
from dsl import *
from pymablock.algorithms import main, nonhermitian
from pymablock.algorithm_parsing import series_computation
from pymablock.block_diagonalization import solve_sylvester_diagonal
from pymablock.series import BlockSeries, zero, one
warnings.simplefilter('ignore')
def tolib(v): return zero if v is ZERO else one if v is ONE else v
def fromlib(v): return ZERO if v is zero else ONE if v is one else v
def run(algo, nb, sizes, E, terms, flags, maxn, names):
    # library
    def ev(*index):
        i,j,*n=index; n=tuple(n)
        if not any(n): return np.diag(E[i]) if i==j else zero
        return terms.get((i,j,n),zero)
    H=BlockSeries(eval=ev,shape=(nb,nb),n_infinite=1,name='H')
    ss=solve_sylvester_diagonal(tuple(E))
    scope=dict(solve_sylvester=ss,**flags)
    ser,_=series_computation({'H':H},algorithm=algo,scope=scope)
    # reference
    prog=Program(algo)
    def ss_ref(Y,index):
        if Y is ZERO: return ZERO
        if isinstance(Y,SeriesHandle): Y=Y[index]
        i,j=index[:2]
        dE=E[i][:,None]-E[j][None,:]
        with np.errstate(all='ignore'):
            return Y*np.where(np.abs(dE)>1e-12,1/np.where(dE==0,1,dE),0)
    it=Interp(prog,{'H':lambda idx: fromlib(ev(*idx))},nb,1,scope=dict(solve_sylvester=ss_ref,**flags),ignore_markers=True)
    worst=0;cnt=0
    rng=np.random.default_rng(0)
    reqs=[(nm,i,j,n) for nm in names for i in range(nb) for j in range(nb) for n in range(maxn+1)]
    rng.shuffle(reqs)
    for nm,i,j,n in reqs:
        a=fromlib(ser[nm][i,j,n]); b=it.get(nm,(i,j,n))
        if (a is ZERO)!=(b is ZERO):
            # allow numeric zero vs ZERO
            x = a if a is not ZERO else b
            if x is ONE or np.abs(x).max()>1e-12: print('ZERO mismatch',nm,i,j,n,a,b); worst=9
            continue
        if a is ZERO: continue
        if (a is ONE) or (b is ONE):
            if a is not b: print('ONE mismatch',nm,i,j,n); worst=9
            continue
        worst=max(worst,np.abs(a-b).max()); cnt+=1
    return worst,cnt
rng=np.random.default_rng(1)
for algo,names in ((main,["H_tilde","U","U†","V","W","X","B","Yadj","U'","U'†","U'† @ U'","H'_offdiag @ U'","U'† @ B","V @ H'_diag"]),(nonhermitian,["H_tilde","U","U†","U'","U_inv'","X","B","U_inv' @ U'","U_inv' @ B"])):
  for nb in (1,2,3):
    sizes=[2,3,1][:nb]
    E=[np.arange(s)*1.0+5*b for b,s in enumerate(sizes)]
    terms={}
    for i in range(nb):
        for j in range(i,nb):
            for n in (1,2):
                a=rng.normal(size=(sizes[i],sizes[j]))+1j*rng.normal(size=(sizes[i],sizes[j]))
                if i==j: a=a+a.conj().T
                terms[i,j,(n,)]=a; terms[j,i,(n,)]=a.conj().T
    for tbo in ([False,True] if nb==2 else [False]):
        for cb in (True,False):
            flags=dict(two_block_optimized=tbo,commuting_blocks=[cb]*nb)
            w,c=run(algo,nb,sizes,E,terms,flags,3,names)
            print(algo.__name__,'nb',nb,'tbo',tbo,'cb',cb,'worst',w,'compared',c)
