import numpy as np, sys, warnings
import os; sys.path.insert(0,os.path.dirname(os.path.abspath(__file__)))
from util import *
from scipy import sparse
from scipy.sparse.linalg import LinearOperator
from pymablock import block_diagonalize
from pymablock.series import zero, one
def herm(a): return a+a.conj().T
def todense(x, shape):
    if x is zero: return np.zeros(shape,complex)
    if x is one: return np.eye(shape[0],dtype=complex)
    if isinstance(x,LinearOperator): return x@np.eye(shape[1],dtype=complex)
    if sparse.issparse(x): return x.toarray()
    return np.asarray(x)
def gen(rng):
    N=int(rng.integers(5,10))
    nexp=int(rng.integers(1,3))          # explicit blocks
    sizes=[int(rng.integers(1,3)) for _ in range(nexp)]
    k=sum(sizes)
    if k>=N-1: N=k+2
    hermitian=rng.random()<0.6
    cplx=rng.random()<0.5
    # spectrum with possible degeneracy inside explicit blocks
    E=np.sort(rng.choice(np.arange(0,40),size=N,replace=False)).astype(complex)*0.5
    rng.shuffle(E)
    off=0
    for s in sizes:
        if s==2 and rng.random()<0.4: E[off+1]=E[off]
        off+=s
    if not hermitian and cplx: E=E+1j*rng.integers(-2,3,size=N)*0.5
    if hermitian:
        Q=np.linalg.qr(rng.normal(size=(N,N))+(1j*rng.normal(size=(N,N)) if cplx else 0))[0]
        R=Q; L=Q
        H0=Q@np.diag(E.real)@Q.conj().T
        H1=herm(rng.normal(size=(N,N))+(1j*rng.normal(size=(N,N)) if cplx else 0))
    else:
        R=rng.normal(size=(N,N))+(1j*rng.normal(size=(N,N)) if cplx else 0)+2*np.eye(N)
        L=np.linalg.inv(R).conj().T
        H0=R@np.diag(E)@L.conj().T
        H1=rng.normal(size=(N,N))+(1j*rng.normal(size=(N,N)) if cplx else 0)
        if not cplx: H0=H0.real if np.isrealobj(R) else H0
    return dict(N=N,sizes=sizes,R=R,L=L,H0=H0,H1=H1,hermitian=hermitian,cplx=cplx,E=E)
def run(c,maxn=3):
    N=c['N']; sizes=c['sizes']; k=sum(sizes); R=c['R']; L=c['L']
    offs=np.concatenate([[0],np.cumsum(sizes)])
    if c['hermitian']:
        expl=[R[:,offs[i]:offs[i+1]] for i in range(len(sizes))]
        full_=expl+[R[:,k:]]
    else:
        expl=[(R[:,offs[i]:offs[i+1]],L[:,offs[i]:offs[i+1]]) for i in range(len(sizes))]
        full_=expl+[(R[:,k:],L[:,k:])]
    H=[sparse.csr_array(c['H0']),sparse.csr_array(c['H1'])]
    imp=block_diagonalize(H,subspace_eigenvectors=expl,hermitian=c['hermitian'])
    exp=block_diagonalize([c['H0'],c['H1']],subspace_eigenvectors=full_,hermitian=c['hermitian'])
    nb=len(sizes)+1
    RB=R[:,k:]; LB=L[:,k:]
    worst=0; where=None
    for n in range(maxn+1):
        for S_i,S_e,nm in zip(imp,exp,('Ht','U','Ui')):
            for i in range(nb):
                for j in range(nb):
                    si=sizes[i] if i<nb-1 else N; sj=sizes[j] if j<nb-1 else N
                    a=todense(S_i[i,j,n],(si,sj))
                    se=(sizes+[N-k])
                    b=todense(S_e[i,j,n],(se[i],se[j]))
                    if i==nb-1: b=RB@b
                    if j==nb-1: b=b@LB.conj().T
                    if i==nb-1 and j==nb-1 and n==0 and nm!='Ht':
                        # implicit 'one' is identity on full space; compare on complement: Q a Q vs b
                        Qp=np.eye(N)-R[:,:k]@L[:,:k].conj().T
                        a=Qp@a@Qp
                    err=abs(a-b).max()/max(1,abs(b).max())
                    if err>worst: worst=err; where=(nm,i,j,n)
    return ('ok' if worst<1e-7 else 'MISMATCH',worst,where)
if __name__=='__main__':
    from collections import Counter
    c=Counter()
    for s in range(int(sys.argv[1]),int(sys.argv[2])):
        rng=np.random.default_rng(s); case=gen(rng)
        try:
            with warnings.catch_warnings():
                warnings.simplefilter('ignore'); r=run(case)
        except Exception as e:
            import traceback
            r=('EXC',type(e).__name__+': '+str(e)[:100])
        key=(r[0],'herm' if case['hermitian'] else 'nonherm','cplx' if case['cplx'] else 'real')
        c[key]+=1
        if r[0]!='ok' and c[key]<=4: print(s,r,case['sizes'],case['N'])
    for k,v in sorted(c.items()): print(k,v)
