import numpy as np
import pymablock.linalg as L
from scipy.sparse.linalg import LinearOperator
_orig=L.ComplementProjector.__init__
def __init__(self, vecs, left_vecs=None):
    _orig(self, vecs, left_vecs)
    dt=self.dtype; sh=self.shape
    LinearOperator.__init__(self, dtype=dt, shape=sh)
L.ComplementProjector.__init__=__init__
import os
if os.environ.get('FIX_RMATVEC','1')=='1':
    def _apply_left(self, v):
        return v - self._left_vecs @ (self._vecs.conj().T @ v)
    L.ComplementProjector._apply_left=_apply_left
    L.ComplementProjector._rmatvec=_apply_left
    L.ComplementProjector._rmatmat=_apply_left
