"""Throwaway probing reference solver (float)."""
import numpy as np, itertools

def orders_upto(maxo):
    rngs=[range(m+1) for m in maxo]
    return sorted(itertools.product(*rngs), key=lambda t:(sum(t),t))

def splits(n, k):
    """all k-tuples of multiindices summing to n"""
    if k==1:
        yield (n,); return
    for a in itertools.product(*[range(x+1) for x in n]):
        rest=tuple(x-y for x,y in zip(n,a))
        for s in splits(rest,k-1):
            yield (a,)+s

def ref_solve(H, keep, maxo, hermitian=True):
    """H: dict order->NxN array; H[0..0] diagonal. keep: bool NxN (S). returns Ht,U,Ui dicts"""
    k=len(maxo); z=(0,)*k
    N=H[z].shape[0]
    E=np.diag(H[z]); H0=H[z]
    dE=E[:,None]-E[None,:]
    R=~keep
    U={z:np.eye(N,dtype=complex)}; G={z:np.eye(N,dtype=complex)}
    Ht={z:H0.astype(complex)}
    Z=np.zeros((N,N),complex)
    for n in orders_upto(maxo):
        if n==z: continue
        # C = sum_{0<m<n} G_m U_{n-m}
        C=Z.copy()
        for a,b in splits(n,2):
            if a==z or b==z: continue
            if a in G and b in U: C=C+G[a]@U[b]
        K=Z.copy()
        for a,b,c in splits(n,3):
            if b==z and (a==n or c==n): continue
            if b not in H: continue
            K=K+G[a]@H[b]@U[c]
        if hermitian:
            W=-C/2
            rhs=-(W@H0+H0@W+K)
            V=np.where(R, rhs/np.where(R,dE,1), 0)
            Un=W+V; Gn=W-V
        else:
            # U'_S = -C_S/2 ; R: dE*U'_ij=(C H0 - K)_ij
            rhs=C@H0-K
            Un=np.where(R, rhs/np.where(R,dE,1), -C/2)
            Gn=-Un-C
        U[n]=Un; G[n]=Gn
        Ht[n]=Gn@H0+H0@Un+K
    return Ht,U,G
