#!/bin/bash
# Idempotent, offline: put icontract/deal beside the repository's interpreter, in /verif/.deps.
here="$(cd "$(dirname "${BASH_SOURCE[0]}")" && pwd)"
cd "$here" || exit 1
mkdir -p evidence replays .scratch
if [ -f .deps/.ok ]; then exit 0; fi
[ -d .deps ] && [ ! -f .deps/.ok ] && rm -rf .deps
tmp="$(mktemp -d "$here/.deps.tmp.XXXXXX")"
if PIP_NO_INDEX=1 /venv/bin/pip install -q --no-index --find-links /opt/veriftools/wheels \
      --target "$tmp" icontract deal >/dev/null 2>&1; then
  touch "$tmp/.ok"
  if mv -T "$tmp" .deps 2>/dev/null; then :; else rm -rf "$tmp"; fi   # lost a race: fine
else
  rm -rf "$tmp"; echo "could not install icontract/deal from the offline wheelhouse" >&2; exit 1
fi
[ -f .deps/.ok ]
