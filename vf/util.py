"""Small shared helpers: verdict exceptions, seeded RNGs, conversion of library values to dense."""
from __future__ import annotations

import itertools
from fractions import Fraction

import numpy as np
import sympy
from scipy import sparse


class Violation(Exception):
    def __init__(self, msg, **extra):
        super().__init__(msg)
        self.extra = extra


class Inconclusive(Exception):
    pass


def rng_for(*entropy) -> np.random.Generator:
    """Deterministic generator from a tuple of ints (property number, seed, case index ...)."""
    return np.random.default_rng(np.random.SeedSequence([int(e) & 0xFFFFFFFF for e in entropy]))


def is_zero(x) -> bool:
    from pymablock.series import zero

    return x is zero


def is_one(x) -> bool:
    from pymablock.series import one

    return x is one


def to_dense(b, shape=None, dtype=complex):
    """Dense complex ndarray of a library value (zero/one sentinels need `shape`)."""
    from pymablock.series import one, zero

    if b is zero or b is np.ma.masked:
        return np.zeros(shape, dtype)
    if b is one:
        return np.eye(shape[0], dtype=dtype)
    if sparse.issparse(b):
        return np.asarray(b.toarray(), dtype=dtype)
    if isinstance(b, sympy.MatrixBase):
        return np.array(b.tolist(), dtype=dtype)
    if isinstance(b, np.ndarray):
        return np.asarray(b, dtype=dtype)
    if isinstance(b, sparse.linalg.LinearOperator):
        return np.asarray(b @ np.eye(b.shape[1], dtype=dtype), dtype=dtype)
    if np.isscalar(b) or isinstance(b, sympy.Expr):
        return np.array([[complex(b)]], dtype=dtype)
    raise TypeError(f"cannot densify {type(b)}")


# ---- exact Gaussian rationals -------------------------------------------------------------
class GR:
    """Gaussian rational a + i b with Fraction components (exact arithmetic back end)."""

    __slots__ = ("re", "im")

    def __init__(self, re=0, im=0):
        self.re = Fraction(re)
        self.im = Fraction(im)

    @staticmethod
    def of(x):
        if isinstance(x, GR):
            return x
        if isinstance(x, complex):
            return GR(Fraction(x.real), Fraction(x.imag))
        if isinstance(x, (int, Fraction)):
            return GR(x, 0)
        if isinstance(x, float):
            return GR(Fraction(x), 0)
        if isinstance(x, (np.integer,)):
            return GR(int(x), 0)
        if isinstance(x, (np.floating,)):
            return GR(Fraction(float(x)), 0)
        if isinstance(x, (np.complexfloating,)):
            return GR(Fraction(float(x.real)), Fraction(float(x.imag)))
        if isinstance(x, sympy.Basic):
            if x.is_Rational:
                return GR(Fraction(int(x.p), int(x.q)), 0)
            x = sympy.expand(x)
            re, im = x.as_real_imag()
            if not (re.is_Rational and im.is_Rational):
                re, im = sympy.nsimplify(re, rational=True), sympy.nsimplify(im, rational=True)
            if not (re.is_Rational and im.is_Rational):
                raise TypeError(f"not a Gaussian rational: {x}")
            return GR(Fraction(int(re.p), int(re.q)), Fraction(int(im.p), int(im.q)))
        raise TypeError(type(x))

    def __add__(self, o):
        o = GR.of(o)
        return GR(self.re + o.re, self.im + o.im)

    __radd__ = __add__

    def __sub__(self, o):
        o = GR.of(o)
        return GR(self.re - o.re, self.im - o.im)

    def __rsub__(self, o):
        return GR.of(o) - self

    def __neg__(self):
        return GR(-self.re, -self.im)

    def __mul__(self, o):
        o = GR.of(o)
        return GR(self.re * o.re - self.im * o.im, self.re * o.im + self.im * o.re)

    __rmul__ = __mul__

    def __truediv__(self, o):
        o = GR.of(o)
        d = o.re * o.re + o.im * o.im
        return GR((self.re * o.re + self.im * o.im) / d, (self.im * o.re - self.re * o.im) / d)

    def __rtruediv__(self, o):
        return GR.of(o) / self

    def conjugate(self):
        return GR(self.re, -self.im)

    def __eq__(self, o):
        try:
            o = GR.of(o)
        except TypeError:
            return NotImplemented
        return self.re == o.re and self.im == o.im

    def __hash__(self):
        return hash((self.re, self.im))

    def __bool__(self):
        return bool(self.re) or bool(self.im)

    def __abs__(self):
        return abs(complex(self))

    def __complex__(self):
        return complex(float(self.re), float(self.im))

    def __repr__(self):
        return f"({self.re}{'+' if self.im >= 0 else '-'}{abs(self.im)}i)" if self.im else f"{self.re}"


_to_gr = np.vectorize(GR.of, otypes=[object])


def gr_array(a) -> np.ndarray:
    """Object ndarray of GR from ndarray / sympy matrix / nested lists."""
    if isinstance(a, sympy.MatrixBase):
        a = np.array(a.tolist(), dtype=object)
    a = np.asarray(a, dtype=object) if not isinstance(a, np.ndarray) else a
    if a.size == 0:
        return np.zeros(a.shape, dtype=object)
    return _to_gr(a.astype(object))


def gr_zeros(shape):
    out = np.empty(shape, dtype=object)
    out[...] = GR(0)
    return out


def gr_eye(n):
    out = gr_zeros((n, n))
    for i in range(n):
        out[i, i] = GR(1)
    return out


def adj(a: np.ndarray) -> np.ndarray:
    """Conjugate transpose for complex and object (GR/Fraction) arrays."""
    if a.dtype == object:
        out = np.empty(a.T.shape, dtype=object)
        for idx in np.ndindex(*a.shape):
            out[idx[::-1]] = a[idx].conjugate()
        return out
    return a.conj().T


def to_exact(b, shape=None):
    """Exact (GR object array) version of a library value."""
    from pymablock.series import one, zero

    if b is zero or b is np.ma.masked:
        return gr_zeros(shape)
    if b is one:
        return gr_eye(shape[0])
    if sparse.issparse(b):
        return gr_array(b.toarray())
    return gr_array(b)


def max_abs(a) -> float:
    if a.size == 0:
        return 0.0
    if a.dtype == object:
        return max(abs(x) for x in a.flat)
    return float(np.max(np.abs(a)))


# ---- multi-index helpers -------------------------------------------------------------------
def orders_upto_total(n_par: int, total: int):
    """All multi-orders with |n| <= total, graded order."""
    out = [n for n in itertools.product(range(total + 1), repeat=n_par) if sum(n) <= total]
    return sorted(out, key=lambda t: (sum(t), t))


def orders_box(maxo):
    return sorted(itertools.product(*[range(m + 1) for m in maxo]), key=lambda t: (sum(t), t))


def splits(n, k):
    """All k-tuples of multi-indices summing to n."""
    if k == 1:
        yield (n,)
        return
    for a in itertools.product(*[range(x + 1) for x in n]):
        rest = tuple(x - y for x, y in zip(n, a))
        for s in splits(rest, k - 1):
            yield (a,) + s


def jsonable(x):
    """Best-effort conversion of small structures for samples / replays."""
    if isinstance(x, dict):
        return {str(k): jsonable(v) for k, v in x.items()}
    if isinstance(x, (list, tuple)):
        return [jsonable(v) for v in x]
    if isinstance(x, np.ndarray):
        return jsonable(x.tolist())
    if isinstance(x, (np.integer,)):
        return int(x)
    if isinstance(x, (np.floating,)):
        return float(x)
    if isinstance(x, complex) or isinstance(x, np.complexfloating):
        return [float(x.real), float(x.imag)]
    if isinstance(x, (int, float, str, bool)) or x is None:
        return x
    return str(x)
