"""Parent process of a check: shards the plan over worker subprocesses, aggregates the
observations, writes the evidence file and decides the three-valued verdict.

usage: python -m vf.run <ID> <quick|thorough> [--replay FILE] [--shards N]
"""
from __future__ import annotations

import importlib
import json
import os
import shutil
import subprocess
import sys
import tempfile
import time
from collections import Counter

HERE = os.path.dirname(os.path.dirname(os.path.abspath(__file__)))
REPO = os.environ.get("VERIF_REPO", "/repo")


def load_check(pid: str):
    return importlib.import_module(f"vf.checks.{pid.lower()}")


def load_known():
    path = os.path.join(HERE, "known_findings.json")
    with open(path) as f:
        kf = json.load(f)
    return kf


def main(argv=None) -> int:
    argv = list(sys.argv[1:] if argv is None else argv)
    if len(argv) < 2:
        print(__doc__)
        return 2
    pid, tier = argv[0].upper(), argv[1]
    replay = None
    nshards = int(os.environ.get("VERIF_SHARDS", "16"))
    rest = argv[2:]
    while rest:
        a = rest.pop(0)
        if a == "--replay":
            replay = rest.pop(0)
        elif a == "--shards":
            nshards = int(rest.pop(0))
    seed = int(os.environ.get("VERIF_SEED", "0"))
    if replay:
        return run_replay(pid, replay)
    return run_check(pid, tier, seed, nshards)


def run_replay(pid: str, path: str) -> int:
    from vf import worker

    with open(path) as f:
        blob = json.load(f)
    res = worker.run_one(pid, blob["spec"])
    print(json.dumps(res, indent=1, default=str)[:6000])
    if res["verdict"] == "violation":
        print(f"VIOLATION property={pid} replay={path}")
        return 1
    if res["verdict"] == "known":
        print(f"KNOWN-FINDING: property={pid} {res.get('finding')}")
        return 0
    return 0 if res["verdict"] == "held" else 2


def run_check(pid: str, tier: str, seed: int, nshards: int) -> int:
    t0 = time.time()
    mod = load_check(pid)
    known = load_known()
    known_ids = {k["id"]: k for k in known.get("known", []) if k["property"] == pid}
    budget = mod.BUDGET[tier]
    scratch_root = os.path.join(HERE, ".scratch")
    os.makedirs(scratch_root, exist_ok=True)
    scratch = tempfile.mkdtemp(prefix=f"{pid}-", dir=scratch_root)
    procs = []
    env = dict(os.environ)
    env["VERIF_DEADLINE"] = str(t0 + budget["seconds"])
    try:
        for sh in range(nshards):
            out = os.path.join(scratch, f"shard{sh}.jsonl")
            err = os.path.join(scratch, f"shard{sh}.err")
            p = subprocess.Popen(
                [sys.executable, "-m", "vf.worker", pid, tier, str(seed), str(sh), str(nshards), out],
                stdout=subprocess.DEVNULL,
                stderr=open(err, "w"),
                env=env,
                cwd=HERE,
            )
            procs.append((p, out, err))
        hard = t0 + budget["seconds"] * 2.0 + 120
        dead_shards = []
        failfast = bool(os.environ.get("VERIF_FAILFAST"))  # mutation campaigns only: stop at the first violation
        stopped = False
        while failfast and any(p.poll() is None for p, _, _ in procs) and time.time() < hard:
            time.sleep(0.5)
            for p, out, err in procs:
                try:
                    if os.path.exists(out) and '"verdict": "violation"' in open(out).read():
                        stopped = True
                except OSError:
                    pass
            if stopped:
                for p, _, _ in procs:
                    if p.poll() is None:
                        p.kill()
                break
        for sh, (p, out, err) in enumerate(procs):
            try:
                rc = p.wait(timeout=max(1.0, hard - time.time()))
            except subprocess.TimeoutExpired:
                p.kill()
                rc = -9
            if stopped:
                continue
            if rc != 0:
                tail = ""
                try:
                    tail = open(err).read()[-1500:]
                except OSError:
                    pass
                dead_shards.append((sh, rc, tail))
        records = []
        for p, out, err in procs:
            if os.path.exists(out):
                with open(out) as f:
                    for line in f:
                        line = line.strip()
                        if line:
                            try:
                                records.append(json.loads(line))
                            except json.JSONDecodeError:
                                pass
    finally:
        for p, _, _ in procs:
            if p.poll() is None:
                p.kill()
        shutil.rmtree(scratch, ignore_errors=True)

    # ---- aggregate -------------------------------------------------------------
    counters = Counter()
    verdicts = Counter()
    sigs = set()
    samples = []
    violations = []
    knowns = []
    inconclusive = []
    meta = {}
    evaluations = 0
    for r in records:
        if r.get("kind") == "meta":
            for k, v in r.items():
                if k != "kind":
                    meta.setdefault(k, v)
            for k, v in r.get("counters", {}).items():
                counters[k] += v
            continue
        evaluations += 1
        verdicts[r["verdict"]] += 1
        for k, v in r.get("counters", {}).items():
            counters[k] += v
        if r.get("nontrivial") and r["verdict"] in ("held", "known"):
            sigs.add(json.dumps(r.get("sig"), sort_keys=True, default=str))
        if r.get("sample") is not None and len(samples) < 6 and r["verdict"] == "held" and r.get("nontrivial"):
            samples.append(r["sample"])
        if r["verdict"] == "violation":
            violations.append(r)
        elif r["verdict"] == "known":
            if r.get("finding") in known_ids:
                knowns.append(r)
            else:
                r["detail"] = f"unlisted finding {r.get('finding')}: " + str(r.get("detail"))
                violations.append(r)
        elif r["verdict"] == "inconclusive":
            inconclusive.append(r)
    reasons = []
    if dead_shards:
        for sh, rc, tail in dead_shards:
            reasons.append(f"worker shard {sh} exited with {rc}: {tail[-400:]}")
    if not meta.get("origin_ok", False):
        reasons.append(f"library under test not imported from {REPO}: {meta.get('origin')}")
    planned = meta.get("planned", 0)
    if evaluations == 0:
        reasons.append("no case was executed")
    reasons += list(mod.finalize(dict(counters), tier, evaluations=evaluations, distinct=len(sigs)))
    if len(inconclusive) > max(3, 0.2 * max(1, evaluations)):
        reasons.append(f"{len(inconclusive)} of {evaluations} cases inconclusive, e.g. {inconclusive[0].get('detail')}")
    if len(sigs) < 2:
        reasons.append("fewer than 2 distinct non-trivial cases")

    # ---- replay files ------------------------------------------------------------
    rpdir = os.environ.get("VERIF_REPLAY_DIR") or os.path.join(HERE, "replays")
    os.makedirs(rpdir, exist_ok=True)
    vio_lines = []
    seen_details = Counter()
    for n, r in enumerate(violations[:50]):
        path = os.path.join(rpdir, f"{pid}-{seed}-{tier}-{n}.json")
        with open(path, "w") as f:
            json.dump({"property": pid, "spec": r.get("spec"), "detail": r.get("detail")}, f, indent=1, default=str)
        key = str(r.get("detail"))[:80]
        seen_details[key] += 1
        if seen_details[key] <= 3:
            print(f"  violation detail: {str(r.get('detail'))[:700]}")
        vio_lines.append(f"VIOLATION property={pid} replay={path}")

    wall = time.time() - t0
    if not samples:
        samples = [r.get("sample") for r in records if r.get("sample") is not None][:3]
    if not samples:
        samples = [{"note": "no sample recorded"}]
    coverage = {
        "evaluations": evaluations,
        "distinct_nontrivial": len(sigs),
        "rule": mod.RULE,
        "samples": samples,
        "planned": planned,
        "budget_exhausted": bool(counters.get("budget_exhausted", 0)),
        "verdict_counts": dict(verdicts),
        "monitor_counters": {k: v for k, v in sorted(counters.items())},
        "known_findings_hit": dict(Counter(k.get("finding") for k in knowns)),
        "inconclusive_reasons": reasons,
        "library_origin": meta.get("origin"),
        "library_commit": _git_head(),
    }
    coverage.update(getattr(mod, "extra_coverage", lambda c, e: {})(dict(counters), evaluations))
    evidence = {
        "property_id": pid,
        "tier": tier,
        "seed": seed,
        "level": mod.LEVEL,
        "coverage": coverage,
        "assumptions": list(mod.ASSUMPTIONS),
        "wall_s": round(wall, 2),
        "violations": len(violations),
    }
    evdir = os.environ.get("VERIF_EVIDENCE_DIR") or os.path.join(HERE, "evidence")
    os.makedirs(evdir, exist_ok=True)
    tmp = os.path.join(evdir, f".{pid}.json.tmp{os.getpid()}")
    with open(tmp, "w") as f:
        json.dump(evidence, f, indent=1, default=str)
    os.replace(tmp, os.path.join(evdir, f"{pid}.json"))

    print(
        f"[{pid} {tier} seed={seed}] cases={evaluations}/{planned} distinct_nontrivial={len(sigs)} "
        f"verdicts={dict(verdicts)} wall={wall:.1f}s"
    )
    slow = sorted(((r.get("t", 0), json.dumps(r.get("sig"), default=str)[:160]) for r in records if r.get("kind") != "meta"), reverse=True)[:3]
    print("  slowest cases:", "; ".join(f"{t:.1f}s {s}" for t, s in slow))
    interesting = {k: v for k, v in counters.items() if not k.startswith("_")}
    print("  observed:", json.dumps(dict(sorted(interesting.items()))))
    for fid, n in Counter(k.get("finding") for k in knowns).items():
        print(f"KNOWN-FINDING: property={pid} {fid} ({known_ids[fid]['what']}) observed in {n} cases")
    if violations:
        for line in vio_lines:
            print(line)
        return 1
    if reasons:
        for r in reasons:
            print(f"INCONCLUSIVE property={pid} {r}")
        return 2
    return 0


def _git_head():
    try:
        return subprocess.run(
            ["git", "-C", REPO, "rev-parse", "--short", "HEAD"], capture_output=True, text=True, timeout=10
        ).stdout.strip()
    except Exception:
        return None


if __name__ == "__main__":
    sys.exit(main())
