"""R4 - matrix model of second-quantised operators (no code shared with pymablock's arithmetic).

Truncated Fock space for BosonOp (cut-off d), shift lattice -L..L for LadderOp ([a, a^dagger] = 0,
N = position), two levels for spins (commuting with everything else), Jordan-Wigner strings for
FermionOp.  Two independent denotations:
  * Model.expr(e): recursive walk of an arbitrary sympy operator expression,
  * Model.nof(x):  a NumberOrderedForm from its (powers -> coefficient) terms in the documented
                   order  creators (ascending) | f(N) | annihilators (descending).
Comparisons must be restricted to columns far enough from the truncation edge (safe_cols).
"""
import numpy as np, sympy, itertools
from sympy.physics.quantum import Dagger, pauli
from sympy.physics.quantum.boson import BosonOp
from sympy.physics.quantum.fermion import FermionOp
from pymablock.number_ordered_form import NumberOperator, LadderOp, NumberOrderedForm as NOF, _number_operator_to_placeholder

class Model:
    def __init__(self, ops, d=8, L=6):
        """ops: list of annihilation generators (BosonOp, LadderOp, SigmaMinus, FermionOp)"""
        self.ops=list(ops); self.d=d; self.L=L
        self.dims=[]
        for op in self.ops:
            if isinstance(op,BosonOp): self.dims.append(d)
            elif isinstance(op,LadderOp): self.dims.append(2*L+1)
            else: self.dims.append(2)
        self.D=int(np.prod(self.dims)) if self.dims else 1
        self.ann={}; self.num={}
        ferm_idx=[i for i,o in enumerate(self.ops) if isinstance(o,FermionOp)]
        for i,op in enumerate(self.ops):
            if isinstance(op,BosonOp):
                loc=np.diag(np.sqrt(np.arange(1,d)),1); n=np.diag(np.arange(d))
            elif isinstance(op,LadderOp):
                m=2*L+1; loc=np.diag(np.ones(m-1),1); n=np.diag(np.arange(-L,L+1))
            else:
                loc=np.array([[0,1],[0,0]],float); n=np.diag([0,1])
            mats=[np.eye(k) for k in self.dims]; mats[i]=loc
            if isinstance(op,FermionOp):
                for j in ferm_idx:
                    if j<i: mats[j]=np.diag([1,-1])
            self.ann[op]=self.kron(mats)
            mats=[np.eye(k) for k in self.dims]; mats[i]=n
            self.num[op]=self.kron(mats)
        # occupation numbers per basis state
        self.occ=np.array(list(itertools.product(*[ (range(k) if not isinstance(o,LadderOp) else range(-L,L+1)) for k,o in zip(self.dims,self.ops)]))) if self.ops else np.zeros((1,0))
    @staticmethod
    def mm(A, B):
        """Matrix product with the operator convention 0 x (pole) = 0: a coefficient f(N) may be singular on states
        that the accompanying ladder operators annihilate (e.g. 1/N acting after a on the vacuum); such entries do
        not contribute.  A pole that meets a non-zero partner is a genuine singularity and stays NaN."""
        fa, fb = np.isfinite(A), np.isfinite(B)
        if fa.all() and fb.all():
            return A @ B
        A0, B0 = np.where(fa, A, 0), np.where(fb, B, 0)
        out = A0 @ B0
        bad = ((~fa).astype(float) @ (B0 != 0).astype(float) > 0) | ((A0 != 0).astype(float) @ (~fb).astype(float) > 0) | ((~fa).astype(float) @ (~fb).astype(float) > 0)
        if bad.any():
            out = out.astype(complex)
            out[bad] = np.nan
        return out

    def kron(self,mats):
        out=np.eye(1)
        for m in mats: out=np.kron(out,m)
        return out
    def gen(self, x):
        """matrix of a generator-like operator x"""
        if isinstance(x,(BosonOp,FermionOp,LadderOp)):
            base=type(x)(x.name)
            A=self.ann[base]
            return A if x.is_annihilation else A.conj().T
        if isinstance(x,pauli.SigmaMinus): return self.ann[pauli.SigmaMinus(x.name)]
        if isinstance(x,pauli.SigmaPlus): return self.ann[pauli.SigmaMinus(x.name)].conj().T
        sm=None
        if isinstance(x,pauli.SigmaOpBase):
            sm=self.ann[pauli.SigmaMinus(x.name)]; sp=sm.conj().T
            if isinstance(x,pauli.SigmaX): return sm+sp
            if isinstance(x,pauli.SigmaY): return 1j*(sm-sp)   # sigma_y = -i(s+ - s-) = i(s- - s+)
            if isinstance(x,pauli.SigmaZ): return 2*self.num[pauli.SigmaMinus(x.name)]-np.eye(self.D)
        raise TypeError(x)
    def numop(self, n):
        name,kind=n.args
        for op in self.ops:
            if str(op.name)==str(name) and (type(op).__name__==str(kind) or (str(kind)=='SigmaOpBase' and isinstance(op,pauli.SigmaMinus))):
                return self.num[op]
        raise KeyError(n)
    def expr(self, e, subs=None):
        """matrix of a sympy expression built of operators (direct interpretation)"""
        e=sympy.sympify(e)
        if isinstance(e,NOF): return self.nof(e,subs)
        if isinstance(e,sympy.Add): return sum(self.expr(a,subs) for a in e.args)
        if isinstance(e,sympy.Mul):
            out=np.eye(self.D,dtype=complex)
            for a in e.args: out=self.mm(out,self.expr(a,subs))
            return out
        if isinstance(e,sympy.Pow):
            b,p=e.args
            if p.is_Integer and p>0: return np.linalg.matrix_power(self.expr(b,subs),int(p))
            M=self.expr(b,subs)
            assert np.allclose(M,np.diag(np.diag(M)))
            with np.errstate(all='ignore'):
                d=np.diag(M).astype(complex)
                vals=np.array([(np.inf if (x==0 and complex(p).real<0) else x**complex(p)) for x in d], dtype=complex)
            return np.diag(vals)
        if isinstance(e,NumberOperator): return self.numop(e).astype(complex)
        if isinstance(e,(BosonOp,FermionOp,LadderOp,pauli.SigmaOpBase)): return self.gen(e).astype(complex)
        if isinstance(e,sympy.Function) and len(e.args)==1 and e.has(NumberOperator):
            # function of a number-conserving (Fock-diagonal) argument, e.g. Abs(N_l): applied to the diagonal
            # (sympy itself regards Abs(operator) as a commutative scalar)
            M=self.expr(e.args[0],subs)
            assert np.allclose(M,np.diag(np.diag(M)))
            return np.diag(np.array([complex(e.func(sympy.sympify(complex(x)))) for x in np.diag(M)],dtype=complex))
        if e.is_commutative:
            v=e.subs(subs or {})
            return complex(v)*np.eye(self.D)
        raise TypeError(type(e))
    def coeff(self, c, nof, subs=None):
        """diagonal matrix for coefficient with placeholders"""
        syms=nof._number_operator_placeholders
        c=sympy.sympify(c).subs(subs or {})
        f=sympy.lambdify(syms,c,'numpy') if syms else (lambda : c)
        vals=[]
        opidx=[self.ops.index(o) for o in nof.operators]
        occ=self.occ[:,opidx] if len(opidx) else np.zeros((self.D,0))
        with np.errstate(all='ignore'):
            out=np.array([complex(f(*[np.float64(x) for x in row])) for row in occ]) if syms else np.full(self.D,complex(c))
            if syms and not np.all(np.isfinite(out)):
                # removable singularities (0/0: a vanishing energy denominator multiplied by vanishing number factors,
                # e.g. N(N-1).../(3N)): evaluate symmetrically next to the integer point; a genuine pole changes sign /
                # blows up there and stays non-finite
                eps=np.array([1e-5*(1+0.37*k) for k in range(occ.shape[1])])
                for idx in np.where(~np.isfinite(out))[0]:
                    row=occ[idx].astype(float)
                    vp=complex(f(*[np.float64(x) for x in row+eps])); vm=complex(f(*[np.float64(x) for x in row-eps]))
                    if np.isfinite(vp) and np.isfinite(vm) and abs(vp-vm)<=1e-3*max(1.0,abs(vp),abs(vm)):
                        out[idx]=(vp+vm)/2
        return np.diag(out)
    def nof(self, x, subs=None):
        out=np.zeros((self.D,self.D),complex)
        ops=list(x.operators)
        for powers,c in x.args[1]:
            T=self.coeff(c,x,subs)
            for op,p in zip(reversed(ops),reversed(list(powers))):
                if p>0: T=self.mm(T,np.linalg.matrix_power(self.gen(op),int(p)))
            for op,p in zip(reversed(ops),reversed(list(powers))):
                if p<0: T=self.mm(np.linalg.matrix_power(self.gen(op).conj().T,int(-p)),T)
            out+=T
        return out
    def safe_cols(self, k):
        """indices of basis states whose boson occupations are <= d-1-k and ladder within L-k"""
        ok=np.ones(self.D,bool)
        for i,op in enumerate(self.ops):
            if isinstance(op,BosonOp): ok&=self.occ[:,i]<=self.d-1-k
            if isinstance(op,LadderOp): ok&=np.abs(self.occ[:,i])<=self.L-k
        return np.where(ok)[0]
