"""R3 - dense multivariate Cauchy arithmetic on dicts {multi-order: full matrix}.

Absent keys are zero terms.  Works for complex ndarrays and object arrays (exact)."""
from __future__ import annotations

import numpy as np

from vf.util import splits


def cprod(factors: list, n: tuple, zero_like):
    """[prod_k factors[k]]_n = sum over splittings n = n_1 + ... + n_k of prod factors[k][n_k]."""
    total = zero_like.copy()
    for sp in splits(n, len(factors)):
        term = None
        for f, m in zip(factors, sp):
            if m not in f:
                term = None
                break
            term = f[m] if term is None else term @ f[m]
        else:
            if term is not None:
                total = total + term
    return total


def series_power_trace(A: dict, k: int, n: tuple, zero_like):
    """[tr A(lambda)^k]_n"""
    M = cprod([A] * k, n, zero_like)
    t = M[0, 0] * 0
    for i in range(M.shape[0]):
        t = t + M[i, i]
    return t
