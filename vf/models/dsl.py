"""R5 prototype: direct interpreter of the pymablock algorithm mini-language (independent of algorithm_parsing)."""
import ast, inspect, itertools, textwrap
import numpy as np

class Z:  # absent
    def __repr__(self): return 'Z'
ZERO = Z()
class I:  # identity
    def __repr__(self): return 'I'
ONE = I()

def adj(x):
    if x is ZERO or x is ONE: return x
    return x.conj().T
def add(a, b):
    if a is ZERO: return b
    if b is ZERO: return a
    return a + b
def neg(a):
    return ZERO if a is ZERO else -a
def mul(a, b):
    if a is ZERO or b is ZERO: return ZERO
    if a is ONE: return b
    if b is ONE: return a
    return a @ b

class Program:
    def __init__(self, func):
        src = textwrap.dedent(inspect.getsource(func))
        fdef = ast.parse(src).body[0]
        self.series = {}   # name -> dict(start, marker, stmts)
        self.products = {} # name -> dict(terms, hermitian)
        self.outputs = []
        for node in fdef.body:
            if isinstance(node, ast.With):
                name = node.items[0].context_expr.value
                if '@' in name:
                    herm = any(isinstance(s, ast.Expr) and isinstance(s.value, ast.Name) and s.value.id == 'hermitian' for s in node.body)
                    self.products[name] = dict(terms=name.split(' @ '), hermitian=herm)
                    continue
                start = None; marker = None; stmts = []
                for s in node.body:
                    if isinstance(s, ast.Assign):
                        start = s.value.value
                    elif isinstance(s, ast.Expr) and isinstance(s.value, ast.Name) and s.value.id in ('hermitian', 'antihermitian'):
                        marker = s.value.id
                        stmts.append(('marker', marker))
                    elif isinstance(s, ast.Expr):
                        stmts.append(('all', s.value))
                    elif isinstance(s, ast.If):
                        stmts.append((s.test.id, s.body[0].value))
                self.series[name] = dict(start=start, marker=marker, stmts=stmts)
            elif isinstance(node, ast.Return):
                v = node.value
                self.outputs = [v.value] if isinstance(v, ast.Constant) else [e.value for e in v.elts]

class Interp:
    """inputs: name -> callable(index)->value (np.ndarray | ZERO | ONE); scope: dict of python objects/functions.
    Scope functions get (value_or_SeriesHandle, index)."""
    def __init__(self, prog, inputs, nblocks, n_inf, scope=None, ignore_markers=False):
        self.p = prog; self.inputs = inputs; self.nb = nblocks; self.n_inf = n_inf
        self.scope = dict(scope or {}); self.memo = {}; self.ignore_markers = ignore_markers
        self.stack = set()
    def get(self, name, index):
        index = tuple(int(i) for i in index)
        key = (name, index)
        if key in self.memo: return self.memo[key]
        if key in self.stack: raise RecursionError(f'cycle at {key}')
        self.stack.add(key)
        try:
            v = self._compute(name, index)
        finally:
            self.stack.discard(key)
        self.memo[key] = v
        return v
    def _compute(self, name, index):
        if name in self.inputs: return self.inputs[name](index)
        if name in self.p.products: return self._product(name, index)
        s = self.p.series[name]
        i, j, *n = index; n = tuple(n)
        if not any(n) and s['start'] is not None:
            st = s['start']
            if st == 0: return ZERO
            if st == 1:
                if i == j: return ONE
            elif isinstance(st, str):
                assert st.endswith('_0'), st
                return self.inputs[st[:-2]](index)
        result = ZERO
        for kind, expr in s['stmts']:
            if kind == 'marker':
                if i > j and not self.ignore_markers:
                    v = adj(self.get(name, (j, i) + n))
                    return add(result, v if expr == 'hermitian' else neg(v))
                continue
            if kind == 'all':
                result = add(result, self.ev(expr, index))
            elif kind == 'diagonal':
                if i == j:
                    v = self.ev(expr, index)
                    d = self.scope.get('diag')
                    result = add(result, d(v, index) if d else v)
            elif kind == 'offdiagonal':
                if i != j: result = add(result, self.ev(expr, index))
                elif self.scope.get('offdiag') is not None:
                    result = add(result, self.scope['offdiag'](self.ev(expr, index), index))
            elif kind == 'lower':
                # documented: "lower: indices in the lower triangle", statements are summed (generated as the last
                # statement of a series only: the library stops evaluating a lower block after it)
                if i > j: result = add(result, self.ev(expr, index))
            else:
                raise ValueError(kind)
        return result
    def _product(self, name, index):
        terms = self.p.products[name]['terms']
        i, j, *n = index; n = tuple(n); k = len(terms)
        total = ZERO
        for mids in itertools.product(range(self.nb), repeat=k - 1):
            chain = (i,) + mids + (j,)
            for sp in _splits(n, k):
                t = ONE; dead = False
                vals = [None] * k
                # lazy Cauchy product: look at low orders first; an absent factor kills the term
                for f in sorted(range(k), key=lambda f: (sum(sp[f]), f)):
                    vals[f] = self.get(terms[f], (chain[f], chain[f + 1]) + sp[f])
                    if vals[f] is ZERO: dead = True; break
                if not dead:
                    for f in range(k): t = mul(t, vals[f])
                if not dead:
                    total = add(total, t) if not (total is ZERO) else t
        return total
    def ev(self, e, index):
        if isinstance(e, ast.Constant):
            if isinstance(e.value, str): return self.get(e.value, index)
            return e.value
        if isinstance(e, ast.Attribute):  # "X".adj
            assert e.attr == 'adj'
            i, j, *n = index
            return adj(self.get(e.value.value, (j, i) + tuple(n)))
        if isinstance(e, ast.UnaryOp):
            v = self.ev(e.operand, index)
            return neg(v) if isinstance(e.op, ast.USub) else v
        if isinstance(e, ast.BinOp):
            if isinstance(e.op, (ast.Add, ast.Sub)):
                a = self.ev(e.left, index); b = self.ev(e.right, index)
                return add(a, b if isinstance(e.op, ast.Add) else neg(b))
            if isinstance(e.op, ast.Div):
                a = self.ev(e.left, index); d = self.ev(e.right, index)
                return ZERO if a is ZERO else a / d
            if isinstance(e.op, ast.Mult):
                a = self.ev(e.left, index); b = self.ev(e.right, index)
                if a is ZERO or b is ZERO: return ZERO
                return a * b
        if isinstance(e, ast.IfExp):
            return self.ev(e.body if self.pyeval(e.test, index) else e.orelse, index)
        if isinstance(e, ast.Name):
            if e.id == 'zero': return ZERO
            return self.scope[e.id]
        if isinstance(e, ast.Call):
            f = self.scope[e.func.id]
            args = []
            for a in e.args:
                if isinstance(a, ast.Constant) and isinstance(a.value, str):
                    args.append(SeriesHandle(self, a.value))
                else:
                    args.append(self.ev(a, index))
            return f(*args, index)
        raise TypeError(ast.dump(e))
    def pyeval(self, e, index):
        return eval(compile(ast.Expression(body=e), '<t>', 'eval'), {}, {**self.scope, 'index': index})

class SeriesHandle:
    def __init__(self, interp, name): self.interp = interp; self.name = name
    def __getitem__(self, index): return self.interp.get(self.name, index)

def _splits(n, k):
    if k == 1:
        yield (n,); return
    for a in itertools.product(*[range(x + 1) for x in n]):
        for s in _splits(tuple(x - y for x, y in zip(n, a)), k - 1):
            yield (a,) + s
