"""R1 - dense order-by-order reference solver of the *defining equations*.

Shares no code with pymablock.  Works in the eigenbasis of H_0 (H_0 diagonal), on full
N x N matrices, with a boolean keep matrix S (True = kept, False = to be eliminated).

Hermitian:      U = 1 + sum U_n,  U^dagger U = 1, (U_n - U_n^dagger)_S = 0, (U^dagger H U)_n |_R = 0
non-Hermitian:  G = U^{-1},       G U = 1,        (U_n - G_n)_S = 0,        (G H U)_n |_R = 0

For every multi-order n (graded order) it writes
    (G H U)_n = G_n H_0 + H_0 U_n + K_n,     K_n = sum_{a+b+c=n, not(b=0 and (a=n or c=n))} G_a H_b U_c
i.e. it multiplies by H_0 explicitly and divides by E_i - E_j only on R.

Two arithmetic back ends: complex128 ndarrays, or object arrays of exact Gaussian rationals.
"""
from __future__ import annotations

import numpy as np

from vf.util import GR, adj, gr_eye, gr_zeros, orders_box, orders_upto_total, splits


def _zeros(N, exact):
    return gr_zeros((N, N)) if exact else np.zeros((N, N), complex)


def _eye(N, exact):
    return gr_eye(N) if exact else np.eye(N, dtype=complex)


def ref_solve(H: dict, keep: np.ndarray, orders: list, hermitian: bool = True, exact: bool = False):
    """H: {multi-order: N x N array}; H[0..0] diagonal.  keep: bool N x N.  orders: list of
    multi-orders to compute, closed under componentwise <= and sorted graded.
    Returns (Ht, U, G) dicts (G = U^dagger resp. U^{-1})."""
    k = len(orders[0])
    z = (0,) * k
    H0 = H[z]
    N = H0.shape[0]
    E = [H0[i, i] for i in range(N)]
    U = {z: _eye(N, exact)}
    G = {z: _eye(N, exact)}
    Ht = {z: H0.copy()}
    half = GR(1, 0) / GR(2, 0) if exact else 0.5
    for n in orders:
        if n == z:
            continue
        C = _zeros(N, exact)  # sum_{0<a<n} G_a U_{n-a}
        for a, b in splits(n, 2):
            if a == z or b == z:
                continue
            if a in G and b in U:
                C = C + G[a] @ U[b]
        K = _zeros(N, exact)
        for a, b, c in splits(n, 3):
            if b == z and (a == n or c == n):
                continue
            if b not in H:
                continue
            K = K + G[a] @ H[b] @ U[c]
        Un = _zeros(N, exact)
        if hermitian:
            # U_n = W + V, G_n = W - V with W = -C/2 (Hermitian), V anti-Hermitian with V_S = 0
            W = C * (-half)
            rhs = W @ H0 + H0 @ W + K  # (G H U)_n = rhs + [H0, V]  => (E_i - E_j) V_ij = -rhs_ij on R
            V = _zeros(N, exact)
            for i in range(N):
                for j in range(N):
                    if not keep[i, j]:
                        V[i, j] = -rhs[i, j] / (E[i] - E[j])
            Un = W + V
            Gn = W - V
        else:
            # U_n|_S = -C_S/2 ; on R: (E_i - E_j) U_ij = (C H0 - K)_ij ; G_n = -U_n - C
            rhs = C @ H0 - K
            for i in range(N):
                for j in range(N):
                    if keep[i, j]:
                        Un[i, j] = C[i, j] * (-half)
                    else:
                        Un[i, j] = rhs[i, j] / (E[i] - E[j])
            Gn = -Un - C
        U[n] = Un
        G[n] = Gn
        Ht[n] = Gn @ H0 + H0 @ Un + K
    return Ht, U, G


def documented_nonhermitian(H: dict, keep: np.ndarray, orders: list):
    """R2 - the recurrence the library documents/implements for hermitian=False, written
    densely on full matrices: identical to the non-Hermitian branch above except that the kept
    part of X = [U', H] - ... uses X_S = [H'_S, U']_S, i.e. the term [H_0, U'_S] is dropped.

    Derivation used here (float only; needed to *identify* known finding F4, never as an
    oracle of correctness): with H' = H - H_0 split into kept part H'_S and eliminated part
    H'_R, the library computes
        B  = X + H'_R + H'_R U'
        X_R = -(H'_R + H'_R U' + G' B)_R ,   X_S = (H'_S U' - U' H'_S)_S
        U'_R = solve_sylvester(X - H'_S U' + U' H'_S)_R ,  U'_S = -(G' U')_S / 2
        G'  = -U' - G' U'
        Ht  = H_0 + (H'_S + B + G' B)_S
    solved here order by order with explicit loops over Cauchy splittings.
    """
    k = len(orders[0])
    z = (0,) * k
    H0 = H[z]
    N = H0.shape[0]
    E = np.array([H0[i, i] for i in range(N)], complex)
    dE = E[:, None] - E[None, :]
    Z = np.zeros((N, N), complex)
    S = keep
    R = ~keep
    Hs = {n: np.where(S, h, 0) for n, h in H.items() if n != z}
    Hr = {n: np.where(R, h, 0) for n, h in H.items() if n != z}
    Up, Gp, X, B = {}, {}, {}, {}

    def cauchy(A, Bd, n, strict_first=False, strict_second=False):
        out = Z.copy()
        for a, b in splits(n, 2):
            if a in A and b in Bd:
                out = out + A[a] @ Bd[b]
        return out

    Ht = {z: H0.astype(complex)}
    for n in orders:
        if n == z:
            continue
        # products involving only lower orders of U', G', B (all series start at order >= 1)
        GU = cauchy(Gp, Up, n)
        HrU = cauchy(Hr, Up, n)
        HsU = cauchy(Hs, Up, n)
        UHs = cauchy(Up, Hs, n)
        GB = cauchy(Gp, B, n)
        hr = Hr.get(n, Z)
        hs = Hs.get(n, Z)
        Xn = np.where(R, -(hr + HrU + GB), HsU - UHs)
        Un = np.where(R, np.where(R, (Xn - HsU + UHs), 0) / np.where(R, dE, 1), -GU / 2)
        Up[n] = Un
        Gp[n] = -Un - GU
        X[n] = Xn
        B[n] = Xn + hr + HrU
        Ht[n] = np.where(S, hs + B[n] + GB, 0)
    U = {z: np.eye(N, dtype=complex), **Up}
    G = {z: np.eye(N, dtype=complex), **Gp}
    return Ht, U, G
