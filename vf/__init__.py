"""Runtime-monitoring verification framework for pymablock (see /verif/DESIGN.md)."""
