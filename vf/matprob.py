"""G-mat: generator of perturbative matrix problems, their encodings as block_diagonalize
inputs, and extraction of the library's outputs as full matrices.

Everything the oracles use (canonical terms, energies, keep matrix) is computed here from the
user-level specification; nothing is read back from the library.
"""
from __future__ import annotations

import itertools
import warnings
from dataclasses import dataclass, field
from fractions import Fraction

import numpy as np
import sympy
from scipy import sparse

from vf.util import (
    GR,
    Violation,
    adj,
    gr_array,
    gr_eye,
    gr_zeros,
    jsonable,
    orders_upto_total,
    rng_for,
    to_dense,
    to_exact,
)

DEN = 8  # entries are k/DEN: dyadic rationals, exact both as floats and as Fractions


# ---------------------------------------------------------------------------------------------
def gen_spec(rng: np.random.Generator, tier: str, hermitian: bool = True, **force) -> dict:
    """Draw the structural parameters of a problem (JSON-able)."""
    thorough = tier == "thorough"
    nblocks = int(rng.choice([1, 2, 2, 3, 3, 4] if thorough else [1, 2, 2, 3, 3, 4]))
    max_size = 4 if thorough else 3
    sizes = [int(rng.integers(1, max_size + 1)) for _ in range(nblocks)]
    while sum(sizes) > (14 if thorough else 10):
        sizes[int(np.argmax(sizes))] -= 1
    if sum(sizes) < 2:
        sizes[0] = 2
    n_par = int(rng.choice([1, 1, 1, 2, 2, 3]))
    vtype = str(rng.choice(["dense", "dense", "sparse", "sympy"]))
    cplx = bool(rng.integers(0, 2))
    sel = str(rng.choice(["none", "none", "fd_some", "fd_all", "mask", "mask"]))
    if nblocks == 1 and sel == "none":
        sel = "fd_all"  # library default for a single block
    design = str(rng.choice(["indices", "indices", "vectors", "blocks"]))
    container = str(rng.choice(["list", "dict"]))
    extra_orders = bool(rng.integers(0, 2))
    spec = dict(
        hermitian=hermitian,
        nblocks=nblocks,
        sizes=sizes,
        n_par=n_par,
        vtype=vtype,
        complex=cplx,
        sel=sel,
        design=design,
        container=container,
        extra_orders=extra_orders,
        max_total=0,
        degenerate=bool(rng.integers(0, 2)),
        case=[int(x) for x in rng.integers(0, 2**31, size=3)],
        near_deg=bool(rng.random() < 0.3),
        symbolic=bool(rng.random() < 0.35),
        sparse_kind=str(rng.choice(["array", "array", "matrix"])),
        int_h0=bool(rng.random() < 0.2),
        int_all=bool(rng.random() < 0.5),
        real_pert=bool(rng.random() < 0.3),
        offset=int(rng.choice([0, 0, 0, 8192])),
        # the whole Hamiltonian in tiny units (x 2^-k, exact in floating point) with the `atol` option scaled alike
        units_exp=int(rng.integers(36, 64)) if rng.random() < 0.12 else 0,
        # a user-chosen `atol` far below every gap (>= 1/16) and entry (>= 1/8) of the generated problem: must be neutral
        user_atol=float(rng.choice([1e-4, 1e-5, 1e-6, 1e-9])) if rng.random() < 0.15 else 0.0,
        fine_grid=bool(rng.random() < 0.3),
        sympy_class=str(rng.choice(["mutable", "mutable", "immutable", "sparse", "immutable_sparse"])),
        mixed_pert=bool(rng.random() < 0.25),
    )
    if spec["vtype"] == "sympy" and spec["design"] == "indices" and rng.random() < 0.35:
        spec["container"] = "sympy_matrix"
        if rng.random() < 0.5:
            # free symbols with degenerate levels inside fully diagonalised blocks (written in different algebraic forms)
            spec.update(symbolic=True, degenerate=True, sel="fd_all", complex=False)
            while sum(spec["sizes"]) > 5:
                spec["sizes"][int(np.argmax(spec["sizes"]))] -= 1
            spec["sizes"] = [x for x in spec["sizes"] if x > 0]
    spec.update(force)
    return normalise(spec, thorough)


def normalise(spec: dict, thorough: bool = False) -> dict:
    """Keep the structural parameters inside what is affordable / admissible."""
    spec["nblocks"] = len(spec["sizes"])
    n_par, N = spec["n_par"], sum(spec["sizes"])
    if spec["nblocks"] == 1 and spec["sel"] == "none":
        spec["sel"] = "fd_all"  # library default for a single block
    if spec["extra_orders"] and spec["container"] != "sympy_matrix":
        spec["container"] = "dict"
    if spec["container"] == "sympy_matrix" and not (spec["vtype"] == "sympy" and spec["design"] == "indices"):
        spec["container"] = "dict"
    max_total = {1: 4, 2: 3, 3: 2}[n_par] + (1 if thorough and n_par < 3 else 0)
    if n_par == 3 and spec["vtype"] != "sympy" and N <= (7 if thorough else 5):
        max_total = 3  # three parameters up to total order 3 (20 multi-orders) on small problems
    if spec["vtype"] == "sympy":
        max_total = min(max_total, 3 if N <= 6 else 2)
        if spec["design"] == "vectors" and N > 5:
            spec["design"] = "indices"
        if spec["complex"] and (N > 4 or spec["design"] == "vectors"):
            spec["complex"] = False  # sympy does not expand products of Gaussian rationals: exponential swell
    if spec.get("int_h0") and (spec["vtype"] == "sympy" or spec["design"] == "vectors" or (spec["complex"] and not spec["hermitian"])):
        spec["int_h0"] = spec["int_all"] = False  # integer dtype only survives for real numeric H_0 given by indices / pre-split blocks
    if not spec.get("int_h0") or spec["complex"]:
        spec["int_all"] = False
    if spec.get("offset") and spec["design"] == "vectors" and spec["vtype"] != "sympy":
        # rotating a float H_0 of size ~1e4 leaves rounding noise above the library's absolute atol=1e-12
        spec["design"] = "indices"
    if spec.get("units_exp") and (spec["vtype"] == "sympy" or spec["design"] == "vectors" or spec.get("int_h0")):
        # `atol` also bounds dimensionless quantities (orthonormality of eigenvectors): only designations by index
        spec["units_exp"] = 0
    if spec.get("atol_boundary"):
        # two levels of one block exactly `atol` apart (atol = 2^-k passed by the user, levels on the 1/16 grid: the
        # difference is bitwise equal to atol); only for float values designated by index
        if spec["vtype"] == "sympy" or spec["design"] == "vectors" or spec.get("int_h0") or spec.get("units_exp") or max(spec["sizes"]) < 2:
            spec["atol_boundary"] = 0
        else:
            spec["fine_grid"] = False
            spec["user_atol"] = 2.0 ** -int(spec["atol_boundary"])
    if spec.get("symbolic") and spec["vtype"] == "sympy":
        if N > 5 or spec["complex"] or spec["design"] == "vectors":
            spec["symbolic"] = False
        else:
            max_total = min(max_total, 2 if N > 3 else 3)
    if not spec.get("max_total"):
        spec["max_total"] = int(max_total)
    spec["max_total"] = int(min(spec["max_total"], max_total))
    return spec


def signature(spec: dict) -> list:
    return [
        spec["hermitian"], spec["nblocks"], sorted(spec["sizes"]), spec["n_par"], spec["vtype"] + ("-spmatrix" if spec["vtype"] == "sparse" and spec.get("sparse_kind") == "matrix" else ""), spec["complex"], bool(spec.get("offset")), bool(spec.get("near_deg")), bool(spec.get("int_h0")), bool(spec.get("int_all")), bool(spec.get("real_pert")), bool(spec.get("units_exp")), bool(spec.get("user_atol")), bool(spec.get("fine_grid")), bool(spec.get("mixed_pert")),
        spec["sel"], spec["design"], spec["container"], spec["extra_orders"], spec["degenerate"], spec["max_total"],
    ]


@dataclass
class Problem:
    spec: dict
    hermitian: bool
    sizes: list
    N: int
    n_par: int
    exact: bool
    E: list  # canonical H_0 diagonal (Fractions / GR for exact, complex otherwise)
    terms_f: dict  # {order: N x N complex ndarray} canonical basis, includes order 0
    terms_x: dict | None  # same with GR object arrays when exact
    keep: np.ndarray  # N x N bool
    block_of: np.ndarray
    masks: dict  # {block: bool array to_eliminate} for sel == mask
    fd: tuple
    orders: list
    kwargs: dict = field(default_factory=dict)  # arguments for block_diagonalize
    hamiltonian: object = None
    notes: dict = field(default_factory=dict)

    def offsets(self):
        return np.concatenate([[0], np.cumsum(self.sizes)])


def _rand_entry(rng, cplx):
    re = int(rng.integers(-2 * DEN, 2 * DEN + 1))
    im = int(rng.integers(-2 * DEN, 2 * DEN + 1)) if cplx else 0
    return re, im


def _rand_matrix(rng, N, cplx, hermitian, density=0.8, integer=False):
    """Integer numerators (re, im) arrays of a random matrix with entries k/DEN (integer entries if requested)."""
    re = rng.integers(-2 * DEN, 2 * DEN + 1, size=(N, N))
    im = rng.integers(-2 * DEN, 2 * DEN + 1, size=(N, N)) if cplx else np.zeros((N, N), int)
    if integer:
        re, im = DEN * rng.integers(-3, 4, size=(N, N)), (DEN * rng.integers(-3, 4, size=(N, N)) if cplx else im)
    mask = rng.random((N, N)) < density
    re, im = re * mask, im * mask
    if hermitian:
        re = np.triu(re) + np.triu(re, 1).T
        im = np.triu(im, 1) - np.triu(im, 1).T
    return re, im


def build(spec: dict) -> Problem:
    rng = rng_for(*spec["case"])
    hermitian = spec["hermitian"]
    sizes = list(spec["sizes"])
    nb = len(sizes)
    N = sum(sizes)
    n_par = spec["n_par"]
    cplx = spec["complex"]
    exact = spec["vtype"] == "sympy"
    block_of = np.repeat(np.arange(nb), sizes)

    # --- energies: half-integer grid; distinct levels across blocks, degeneracies inside blocks
    n_levels = N + 4
    pool = list(rng.permutation(np.arange(-n_levels, n_levels + 1)))
    E_num = []  # numerators over 16 (real part); imaginary numerators over 2
    for b, s in enumerate(sizes):
        levels = []
        for k in range(s):
            if levels and spec.get("degblocks"):
                levels.append(levels[0])
            elif levels and spec["degenerate"] and rng.random() < 0.45:
                levels.append(levels[int(rng.integers(0, len(levels)))])
            elif levels and spec.get("near_deg") and not spec.get("int_h0") and rng.random() < 0.4:
                # a level split by only 1/16 from another level of the same block (distinct: to be
                # eliminated when the block is fully diagonalised / masked)
                levels.append(levels[int(rng.integers(0, len(levels)))] + 1)
            else:
                levels.append((16 if spec.get("int_h0") else 8) * int(pool.pop()))
        E_num += levels
    if not any(E_num):
        E_num = [16] * N  # the library rejects H_0 = 0 by design: stay inside the domain
    if spec.get("offset"):
        # large common offset: relative gaps become small (but stay above the library's relative
        # threshold 1e-5 for coupled blocks), absolute gaps unchanged
        E_num = [e + 16 * int(spec["offset"]) for e in E_num]
    eden = 16
    if spec.get("fine_grid") and not spec.get("int_h0"):
        # levels on a 1/48 grid (non-terminating decimals; gaps >= 1/48): level -> 3*level + r(level), r in {-1, 0, 1}
        # the same for equal levels, so that degeneracies survive
        E_num = [3 * e + ((e * 7) % 3) - 1 for e in E_num]
        eden = 48
    E_im = [0] * N
    herm_values = spec.get("herm_values", hermitian)
    if not herm_values and cplx:
        # complex energies: give each distinct real level its own imaginary part
        im_of = {lv: int(rng.integers(-3, 4)) for lv in set(E_num)}
        E_im = [im_of[lv] for lv in E_num]

    # --- perturbation terms
    orders = orders_upto_total(n_par, spec["max_total"])
    term_orders = [tuple(int(x) for x in row) for row in np.eye(n_par, dtype=int)]
    if spec["extra_orders"]:
        cands = [o for o in orders if sum(o) == 2]
        k = int(rng.integers(1, min(3, len(cands)) + 1))
        for idx in rng.choice(len(cands), size=k, replace=False):
            term_orders.append(cands[int(idx)])
    nums = {}
    mixed = bool(spec.get("mixed_pert")) and cplx and not spec.get("real_pert") and len(term_orders) >= 2
    for q_, o in enumerate(term_orders):
        # mixed_pert: real and complex perturbation terms alternate (real hopping + imaginary spin-orbit term)
        cplx_o = (cplx and not spec.get("real_pert")) if not mixed else bool((q_ + int(spec["case"][0])) % 2)
        nums[o] = _rand_matrix(rng, N, cplx_o, herm_values, integer=bool(spec.get("int_all")))
    z = (0,) * n_par

    bump = np.zeros(N)
    atol_eff = 0.0
    if spec.get("atol_boundary") and not exact:
        atol_eff = 2.0 ** -int(spec["atol_boundary"])
        b0 = int(np.argmax(np.array(sizes) >= 2))
        i0 = int(np.concatenate([[0], np.cumsum(sizes)])[b0])
        if E_num[i0] == 0:
            atol_eff = 0.0  # a block diag(0, atol) is zero within atol: the library (by design) treats it as absent
        else:
            E_num[i0 + 1], E_im[i0 + 1] = E_num[i0], E_im[i0]
            bump[i0 + 1] = atol_eff
    terms_f = {z: np.diag(np.array(E_num, float) / eden + bump + 1j * np.array(E_im, float) / 2).astype(complex)}
    for o, (re, im) in nums.items():
        terms_f[o] = (re + 1j * im).astype(complex) / DEN
    terms_x = None
    E = list(np.diag(terms_f[z]))
    if exact:
        terms_x = {}
        H0x = gr_zeros((N, N))
        for i in range(N):
            H0x[i, i] = GR(Fraction(E_num[i], eden), Fraction(E_im[i], 2))
        terms_x[z] = H0x
        for o, (re, im) in nums.items():
            M = gr_zeros((N, N))
            for i in range(N):
                for j in range(N):
                    M[i, j] = GR(Fraction(int(re[i, j]), DEN), Fraction(int(im[i, j]), DEN))
            terms_x[o] = M
        E = [H0x[i, i] for i in range(N)]

    # --- selection: keep matrix
    Ec = np.diag(terms_f[z])
    same_E = (Ec[:, None] == Ec[None, :]) | (np.abs(Ec[:, None] - Ec[None, :]) <= atol_eff)
    same_block = block_of[:, None] == block_of[None, :]
    keep = same_block.copy()
    sel = spec["sel"]
    fd: tuple = ()
    masks = {}
    off = np.concatenate([[0], np.cumsum(sizes)])
    if sel == "fd_all":
        fd = tuple(range(nb))
    elif sel == "fd_some":
        k = int(rng.integers(1, nb + 1))
        fd = tuple(sorted(int(x) for x in rng.choice(nb, size=k, replace=False)))
    elif sel == "mask":
        k = int(rng.integers(1, nb + 1))
        for b in sorted(int(x) for x in rng.choice(nb, size=k, replace=False)):
            s = sizes[b]
            m = rng.random((s, s)) < 0.5
            if hermitian:
                m = np.triu(m, 1)
                m = m | m.T
            else:
                np.fill_diagonal(m, False)
            m &= ~same_E[off[b]:off[b + 1], off[b]:off[b + 1]]
            masks[b] = m
    for b in fd:
        sl = slice(off[b], off[b + 1])
        keep[sl, sl] = same_E[sl, sl]
    for b, m in masks.items():
        sl = slice(off[b], off[b + 1])
        keep[sl, sl] = ~m

    prob = Problem(
        spec=spec, hermitian=hermitian, sizes=sizes, N=N, n_par=n_par, exact=exact, E=E, terms_f=terms_f,
        terms_x=terms_x, keep=keep, block_of=block_of, masks=masks, fd=fd, orders=orders,
    )
    if atol_eff:
        prob.notes["atol_boundary"] = atol_eff
    _encode(prob, rng_for(*spec["case"], 7), input_term=True)
    return prob


def compute_keep(sizes, Ec, fd, masks):
    """keep matrix from the user-level selection (fully_diagonalize tuple / mask dict)."""
    nb = len(sizes)
    block_of = np.repeat(np.arange(nb), sizes)
    off = np.concatenate([[0], np.cumsum(sizes)])
    Ec = np.asarray(Ec)
    same_E = Ec[:, None] == Ec[None, :]
    keep = block_of[:, None] == block_of[None, :]
    if nb == 1 and not fd and not masks:
        fd = (0,)
    for b in fd:
        sl = slice(off[b], off[b + 1])
        keep[sl, sl] = same_E[sl, sl]
    for b, m in masks.items():
        sl = slice(off[b], off[b + 1])
        keep[sl, sl] = ~m
    return keep, block_of


def derive(base: Problem, *, terms_f: dict, terms_x: dict | None = None, sizes=None, fd=None, masks=None, enc_salt=7, **spec_over) -> Problem:
    """A new problem from explicit canonical terms (zeroth order included, diagonal), block sizes
    and selection; keep-set and energies are recomputed here.  Used by the covariance checks."""
    spec = dict(base.spec)
    spec.update(spec_over)
    sizes = list(base.sizes if sizes is None else sizes)
    fd = base.fd if fd is None else tuple(fd)
    masks = dict(base.masks if masks is None else masks)
    n_par = base.n_par
    z = (0,) * n_par
    N = sum(sizes)
    spec["sizes"], spec["nblocks"] = sizes, len(sizes)
    Ec = np.diag(terms_f[z]).copy()
    E = list(Ec)
    keep, block_of = compute_keep(sizes, Ec, fd, masks)
    firsts = {tuple(int(x) for x in row) for row in np.eye(n_par, dtype=int)}
    if set(terms_f) - {z} != firsts:
        spec["container"] = "dict"
    exact = spec["vtype"] == "sympy"
    if exact and terms_x is None:
        raise ValueError("exact encoding needs exact terms")
    if exact:
        E = [terms_x[z][i, i] for i in range(N)]
    q = Problem(
        spec=spec, hermitian=base.hermitian, sizes=sizes, N=N, n_par=n_par, exact=exact, E=E, terms_f=terms_f, terms_x=terms_x,
        keep=keep, block_of=block_of, masks=masks, fd=fd, orders=list(base.orders),
    )
    _encode(q, rng_for(*spec["case"], enc_salt))
    return q


def from_terms(base: Problem, terms_f: dict, terms_x: dict | None, n_par: int, max_total: int | None = None, **spec_over) -> Problem:
    """A problem with the same structure, basis designation and selection as `base` but other
    perturbation terms (used by the metamorphic checks).  The encoding uses the same random
    stream as `base`, so both executions see the same permutation / eigenbasis."""
    import copy

    spec = dict(base.spec)
    spec.update(spec_over)
    spec["n_par"] = n_par
    if max_total is not None:
        spec["max_total"] = max_total
    z = (0,) * n_par
    firsts = {tuple(int(x) for x in row) for row in np.eye(n_par, dtype=int)}
    if set(terms_f) - {z} != firsts:
        spec["container"] = "dict"
    q = Problem(
        spec=spec, hermitian=base.hermitian, sizes=list(base.sizes), N=base.N, n_par=n_par, exact=base.exact, E=list(base.E),
        terms_f=terms_f, terms_x=terms_x, keep=base.keep.copy(), block_of=base.block_of.copy(), masks=dict(base.masks), fd=base.fd,
        orders=orders_upto_total(n_par, spec["max_total"]),
    )
    _encode(q, rng_for(*spec["case"], 7))
    return q


# ---------------------------------------------------------------------------------------------
def _cayley_unitary(rng, N, cplx, exact):
    """Random unitary with (Gaussian-)rational entries via the Cayley transform."""
    A_re = rng.integers(-3, 4, size=(N, N))
    A_im = rng.integers(-3, 4, size=(N, N)) if cplx else np.zeros((N, N), int)
    if exact:
        A = gr_zeros((N, N))
        for i in range(N):
            for j in range(N):
                A[i, j] = GR(Fraction(int(A_re[i, j]), 4), Fraction(int(A_im[i, j]), 4))
        K = (A - adj(A)) * GR(Fraction(1, 2))
        Q = (gr_eye(N) - K) @ gr_inv(gr_eye(N) + K)
        return gr_to_sympy_matrix(Q)
    A = (A_re + 1j * A_im) / 4
    K = (A - A.conj().T) / 2
    Q = (np.eye(N) - K) @ np.linalg.inv(np.eye(N) + K)
    Q, Rq = np.linalg.qr(Q)  # re-orthonormalise to machine precision
    Q = Q * np.sign(np.diag(Rq).real + (np.diag(Rq).real == 0))
    return Q if cplx else Q.real


VALUE_OPTS = {"real_if_possible": False, "int_h0": False}  # set per problem by _encode
SPARSE_KIND = {"kind": "array"}  # set per problem by _encode: scipy sparse *_array or legacy *_matrix (spmatrix)


def _sp(A):
    return sparse.csr_matrix(A) if SPARSE_KIND["kind"] == "matrix" else sparse.csr_array(A)


def _value(M_f, M_x, vtype, cplx):
    """Encode a full matrix in the requested value type."""
    if vtype == "sympy":
        cls = {"mutable": sympy.Matrix, "immutable": sympy.ImmutableMatrix, "sparse": sympy.SparseMatrix,
               "immutable_sparse": sympy.ImmutableSparseMatrix}[VALUE_OPTS.get("sympy_class", "mutable")]
        return cls(M_x.shape[0], M_x.shape[1], lambda i, j: _gr_to_sympy(M_x[i, j]))
    A = M_f if (cplx or np.iscomplexobj(M_f) and np.any(M_f.imag)) else M_f.real
    if VALUE_OPTS["real_if_possible"] and np.iscomplexobj(A) and not np.any(A.imag):
        A = A.real  # dtype mixture: real perturbation although H_0 / other terms are complex
    A = np.array(A)
    if vtype == "sparse":
        return _sp(A)
    return A


def gr_to_sympy_matrix(M):
    return sympy.Matrix(M.shape[0], M.shape[1], lambda i, j: _gr_to_sympy(M[i, j]))


def gr_inv(M):
    """Exact inverse by Gauss-Jordan elimination in Gaussian-rational arithmetic."""
    n = M.shape[0]
    A = np.concatenate([M.copy(), gr_eye(n)], axis=1)
    for c in range(n):
        piv = next(r for r in range(c, n) if A[r, c] != 0)
        if piv != c:
            A[[c, piv]] = A[[piv, c]]
        inv = GR(1) / A[c, c]
        A[c] = [x * inv for x in A[c]]
        for r in range(n):
            if r != c and A[r, c] != 0:
                f = A[r, c]
                A[r] = [x - f * y for x, y in zip(A[r], A[c])]
    return A[:, n:]


def _gr_to_sympy(g: GR):
    return sympy.Rational(g.re.numerator, g.re.denominator) + sympy.I * sympy.Rational(g.im.numerator, g.im.denominator)


def _encode(p: Problem, rng, input_term: bool = False):
    """Build the block_diagonalize arguments for the problem's designation/container."""
    spec = p.spec
    vtype, design = spec["vtype"], spec["design"]
    cplx = spec["complex"] or any(np.any(t.imag) for t in p.terms_f.values())
    z = (0,) * p.n_par
    nb = len(p.sizes)
    off = p.offsets()
    kwargs = dict(hermitian=p.hermitian)
    terms_enc = {}
    SPARSE_KIND["kind"] = spec.get("sparse_kind", "array")
    VALUE_OPTS["real_if_possible"] = bool(spec.get("real_pert") or spec.get("mixed_pert"))
    # sympy value class (kronecker_product & co. return immutable matrices); the dressing of `symbolic` problems and the
    # polynomial container need mutable matrices
    VALUE_OPTS["sympy_class"] = spec.get("sympy_class", "mutable") if not (spec.get("symbolic") or spec.get("container") == "sympy_matrix") else "mutable"
    if design == "indices" and nb >= 1:
        # interleave the blocks, preserving the order inside each block
        labels = np.array(p.block_of)
        perm_labels = rng.permutation(labels)
        # position in the lab basis of canonical state (b, k)
        pos = np.empty(p.N, int)
        for b in range(nb):
            pos[labels == b] = np.flatnonzero(perm_labels == b)
        inv = np.argsort(pos)  # lab index -> canonical index
        for o, M in p.terms_f.items():
            Mx = p.terms_x[o][np.ix_(inv, inv)] if p.exact else None
            terms_enc[o] = _value(M[np.ix_(inv, inv)], Mx, vtype, cplx)
        kwargs["subspace_indices"] = [int(x) for x in perm_labels]
        p.notes["lab_of_canonical"] = pos.tolist()
    elif design == "vectors":
        if p.hermitian:
            Q = _cayley_unitary(rng, p.N, cplx, p.exact)
            if p.exact:
                Qi = Q.H
            else:
                Qi = Q.conj().T
            Lfull = Q
        else:
            # biorthogonal: R = Q (1 + T) with Q unitary, T strictly upper triangular;
            # L = (R^{-1})^dagger.  Well conditioned and exactly invertible.
            Q0 = _cayley_unitary(rng, p.N, cplx, p.exact)
            # (entries of T in {-1/4, 0, 1/4}: keeps R = Q (1 + T) well conditioned also for N ~ 10, so that the rounding
            # noise of L^dagger H_0 R stays far below the library's absolute atol = 1e-12)
            T_re = np.triu(rng.integers(-1, 2, size=(p.N, p.N)), 1)
            T_im = np.triu(rng.integers(-1, 2, size=(p.N, p.N)), 1) if cplx else np.zeros((p.N, p.N), int)
            if (not p.exact) and rng.random() < 0.15:
                # H_0 given in a basis in which it is lower triangular: R = 1 + T with T strictly LOWER triangular
                Q0 = np.eye(p.N, dtype=complex)
                T_re, T_im = T_re.T.copy(), T_im.T.copy()
                p.notes["lower_triangular_h0"] = True
            plain_first = bool(nb >= 2 and rng.random() < 0.3)
            if plain_first:
                # mixed designation: the first subspace is decoupled from the others in T, so its right vectors are
                # orthonormal and equal to its left vectors - it is passed as a plain basis V, the others as (R, L) pairs
                s0 = off[1]
                T_re[:s0, :] = 0
                T_im[:s0, :] = 0
                T_re[:, :s0] = 0
                T_im[:, :s0] = 0
                p.notes["plain_first_subspace"] = True
            if p.exact:
                M1 = gr_eye(p.N)
                for i in range(p.N):
                    for j in range(i + 1, p.N):
                        M1[i, j] = GR(Fraction(int(T_re[i, j]), 4), Fraction(int(T_im[i, j]), 4))
                Q0g = gr_array(Q0)
                Q, Qi = gr_to_sympy_matrix(Q0g @ M1), gr_to_sympy_matrix(gr_inv(M1) @ adj(Q0g))
                Lfull = Qi.H
            else:
                M1 = np.eye(p.N) + (T_re + 1j * T_im) / 4
                Q, Qi = Q0 @ M1, np.linalg.inv(M1) @ Q0.conj().T
                if not cplx:
                    Q, Qi = Q.real, Qi.real
                Lfull = Qi.conj().T
        for o in p.terms_f:
            if p.exact:
                terms_enc[o] = _value(None, gr_array(Q) @ p.terms_x[o] @ gr_array(Qi), "sympy", cplx)
            else:
                M = Q @ p.terms_f[o] @ Qi
                if not cplx:
                    M = M.real
                terms_enc[o] = _sp(M) if vtype == "sparse" else np.array(M)
        if input_term and not p.exact and p.n_par >= 1 and rng.random() < 0.35:
            # one perturbation term is DEFINED in the input basis: diagonal there (on-site potential) or exactly Hermitian
            # there (a Hermitian perturbation on top of a non-Hermitian H_0); its canonical form is Q^-1 M Q
            o_in = tuple(1 if k == p.n_par - 1 else 0 for k in range(p.n_par))
            if rng.random() < 0.5:
                M_in = np.diag(rng.integers(-2 * DEN, 2 * DEN + 1, size=p.N) / DEN).astype(complex)
                p.notes["input_basis_term"] = "diagonal"
            else:
                A_ = (rng.integers(-DEN, DEN + 1, size=(p.N, p.N)) + (1j * rng.integers(-DEN, DEN + 1, size=(p.N, p.N)) if cplx else 0)) / DEN
                M_in = (A_ + A_.conj().T) / 2
                p.notes["input_basis_term"] = "hermitian"
            if not cplx:
                M_in = M_in.real
            p.terms_f[o_in] = np.asarray(Qi @ M_in @ Q, complex)
            terms_enc[o_in] = _sp(M_in) if vtype == "sparse" else np.array(M_in)
        # (sparse eigenvector matrices of a rotated basis are not generated: the library tests sparse blocks for EXACT
        # zeros, so the rounding noise of L^dagger H_0 R makes it reject them - loudly - as "H_0 not block diagonal")
        sparse_vecs = False
        if sparse_vecs:
            p.notes["sparse_eigenvectors"] = True
        vecs = []
        for b in range(nb):
            cols = list(range(off[b], off[b + 1]))
            if p.exact:
                Rb, Lb = Q[:, cols], Lfull[:, cols]
            else:
                Rb, Lb = np.array(Q[:, cols]), np.array(Lfull[:, cols])
                if sparse_vecs:
                    Rb, Lb = sparse.csr_array(Rb), sparse.csr_array(Lb)
            if p.hermitian or (b == 0 and p.notes.get("plain_first_subspace")):
                vecs.append(Rb)
            else:
                vecs.append((Rb, Lb))
        kwargs["subspace_eigenvectors"] = tuple(vecs)
        p.notes["rotated"] = True
    else:  # "blocks": pre-split nested lists
        for o, M in p.terms_f.items():
            rows = []
            for i in range(nb):
                row = []
                for j in range(nb):
                    sub = M[off[i]:off[i + 1], off[j]:off[j + 1]]
                    subx = p.terms_x[o][off[i]:off[i + 1], off[j]:off[j + 1]] if p.exact else None
                    row.append(_value(sub, subx, vtype, cplx))
                rows.append(row)
            terms_enc[o] = rows
    if spec.get("int_h0") and not p.exact and design in ("indices", "blocks"):
        def to_int(M):
            if sparse.issparse(M):
                return M.astype(np.int64) if not np.iscomplexobj(M.data) and np.all(M.data == np.round(M.data)) else M
            M = np.asarray(M)
            return M.astype(np.int64) if not np.iscomplexobj(M) and np.all(M == np.round(M)) else M

        for o in list(terms_enc):
            if o != z and not spec.get("int_all"):
                continue  # int_all: the perturbation is integer-typed too (its entries are integers by construction)
            T0 = terms_enc[o]
            terms_enc[o] = to_int(T0) if design == "indices" else [[to_int(T0[i][j]) for j in range(nb)] for i in range(nb)]
        p.notes["int_h0"] = True
    if spec.get("units_exp") and not p.exact and design in ("indices", "blocks") and not p.notes.get("int_h0"):
        units = 2.0 ** -int(spec["units_exp"])

        def scaled(Mv):
            return [scaled(x) for x in Mv] if isinstance(Mv, list) else Mv * units

        for o in list(terms_enc):
            terms_enc[o] = scaled(terms_enc[o])
        kwargs["atol"] = 1e-12 * units
        p.notes["units"] = units
    if spec.get("user_atol") and not p.exact and "atol" not in kwargs:
        kwargs["atol"] = float(spec["user_atol"])
        p.notes["user_atol"] = kwargs["atol"]
    if spec.get("symbolic") and p.exact and design in ("indices", "blocks"):
        # free symbols in H_0 and in the perturbation: t enters every level as E + d*(t - t0) (same d inside a
        # degenerate level), s multiplies part of the perturbation as (1 + s - s0); at t = t0, s = s0 the input is
        # the canonical problem, so the outputs with the symbols substituted must equal the reference
        t, s_ = sympy.Symbol("t", real=True), sympy.Symbol("s", real=True)
        t0, s0 = sympy.Rational(int(rng.integers(1, 6)), 7), sympy.Rational(int(rng.integers(1, 6)), 5)
        p.notes["subs"] = {t: t0, s_: s0}
        levels = {}

        # for the Taylor-expanded sympy-matrix container the library canonicalises the input: equal levels may then be
        # written in algebraically equal but structurally different forms (factored / expanded)
        disguise = spec["container"] == "sympy_matrix" and design == "indices" and rng.random() < 0.95
        seen_levels = set()

        def dress0(M, offset_rows=0, offset_cols=0, square=True):
            M = M.copy()
            for i in range(M.rows):
                e = M[i, i] if square else None
                if square and i < M.cols:
                    key = sympy.nsimplify(e)
                    d = levels.setdefault(key, int(rng.integers(-2, 3)))
                    if disguise:
                        form = (d * (t - t0) ** 2) if key not in seen_levels else sympy.expand(d * (t - t0) ** 2)
                        if key in seen_levels and d:
                            p.notes["disguised_degeneracy"] = True
                        seen_levels.add(key)
                        M[i, i] = e + form
                    else:
                        M[i, i] = e + d * (t - t0)
            return M

        def dress1(M):
            M = M.copy()
            for i in range(M.rows):
                for j in range(M.cols):
                    if (i + j) % 2 == 0 and M[i, j] != 0:
                        M[i, j] = M[i, j] * (1 + s_ - s0)
            return M

        for o in list(terms_enc):
            T = terms_enc[o]
            if design == "indices":
                terms_enc[o] = dress0(T) if o == z else dress1(T)
            else:
                terms_enc[o] = [[(dress0(T[i][j]) if (o == z and i == j) else (T[i][j] if o == z else dress1(T[i][j]))) for j in range(nb)] for i in range(nb)]
    if spec["container"] == "sympy_matrix" and p.exact and design == "indices":
        # one sympy matrix, polynomial in the perturbation symbols (the library Taylor-expands it); the returned
        # elements carry the monomial by design, so the symbols are substituted by 1 when the outputs are read
        lam = [sympy.Symbol(f"lam{k}", real=True) for k in range(p.n_par)]
        poly = sympy.zeros(p.N, p.N)
        for o, T in terms_enc.items():
            mono = sympy.Integer(1)
            for sy, k in zip(lam, o):
                mono = mono * sy**k
            poly = poly + mono * T
        if not (set(lam) - poly.free_symbols):
            subs_all = dict(p.notes.get("subs") or {})
            subs_all.update({sy: 1 for sy in lam})
            p.notes["subs"] = subs_all
            kwargs["symbols"] = lam
            if p.fd:
                kwargs["fully_diagonalize"] = tuple(p.fd[int(q)] for q in rng.permutation(len(p.fd)))  # (the order of the list is immaterial)
            elif p.masks:
                kwargs["fully_diagonalize"] = {b: np.array(m) for b, m in p.masks.items()}
            p.hamiltonian = poly
            p.kwargs = kwargs
            return
    # container
    if spec["container"] == "list" and set(terms_enc) - {z} == {tuple(int(x) for x in row) for row in np.eye(p.n_par, dtype=int)}:
        ham = [terms_enc[z]] + [terms_enc[tuple(int(x) for x in row)] for row in np.eye(p.n_par, dtype=int)]
    else:
        ham = dict(terms_enc)
    if p.fd:
        kwargs["fully_diagonalize"] = tuple(p.fd[int(q)] for q in rng.permutation(len(p.fd)))  # (the order of the list is immaterial)
    elif p.masks:
        kwargs["fully_diagonalize"] = {b: np.array(m) for b, m in p.masks.items()}
        if nb == 1 and rng.random() < 0.5:
            kwargs["fully_diagonalize"] = np.array(p.masks[0])
    p.hamiltonian = ham
    p.kwargs = kwargs


# ---------------------------------------------------------------------------------------------
def call_library(p: Problem, **override):
    """block_diagonalize on the encoded problem; library exceptions on these well-posed inputs
    are violations ("must accept")."""
    from pymablock import block_diagonalize

    kwargs = dict(p.kwargs)
    kwargs.update(override)
    try:
        return block_diagonalize(p.hamiltonian, **kwargs)
    except Exception as e:  # noqa: BLE001
        raise Violation(f"block_diagonalize raised {type(e).__name__}: {e} on a well-posed problem", stage="define") from e


def assemble(series, n, p: Problem, exact: bool, energy: bool = False):
    """Full N x N matrix of the order-n element of a returned series (`energy`: the series is H_tilde, which
    carries the units of the input; it is converted back to the harness's units)."""
    off = p.offsets()
    nb = len(p.sizes)
    out = gr_zeros((p.N, p.N)) if exact else np.zeros((p.N, p.N), complex)
    for i in range(nb):
        for j in range(nb):
            blk = series[(i, j, *n)]
            if p.notes.get("subs") and isinstance(blk, (sympy.MatrixBase, sympy.Basic)):
                blk = blk.subs(p.notes["subs"])  # free (non-perturbative) symbols -> the rationals they stand for
            shape = (p.sizes[i], p.sizes[j])
            if exact and isinstance(blk, (sympy.MatrixBase, sympy.Basic)) and blk.has(sympy.zoo, sympy.nan, sympy.oo, -sympy.oo):
                raise Violation(f"the library returned a non-finite symbolic value (zoo / nan / oo) in block {(i, j)} at order {tuple(n)} of a well-posed problem")
            out[off[i]:off[i + 1], off[j]:off[j + 1]] = to_exact(blk, shape) if exact else to_dense(blk, shape)
    if energy and p.notes.get("units") and not exact:
        out = out / p.notes["units"]
    return out


def extract(outputs, p: Problem, rng=None, orders=None):
    """Request every element of the three outputs (random order when rng is given) and return
    dicts {order: full matrix} for H_tilde, U, U_adjoint/U_inverse."""
    orders = p.orders if orders is None else orders
    nb = len(p.sizes)
    names = ("Ht", "U", "G")
    reqs = [(s, i, j, n) for s in range(3) for i in range(nb) for j in range(nb) for n in orders]
    if rng is not None:
        reqs = [reqs[k] for k in rng.permutation(len(reqs))]
    try:
        for s, i, j, n in reqs:
            outputs[s][(i, j, *n)]
    except Violation:
        raise
    except Exception as e:  # noqa: BLE001
        raise Violation(
            f"evaluating {names[s]}[{i},{j},{n}] raised {type(e).__name__}: {e} on a well-posed problem", stage="evaluate"
        ) from e
    res = []
    for s in range(3):
        res.append({n: assemble(outputs[s], n, p, p.exact, energy=(s == 0)) for n in orders})
    return tuple(res)


def terms(p: Problem):
    return p.terms_x if p.exact else p.terms_f


def zero_like(p: Problem):
    return gr_zeros((p.N, p.N)) if p.exact else np.zeros((p.N, p.N), complex)


def sample_of(p: Problem) -> dict:
    return jsonable(
        dict(
            spec=p.spec,
            energies=[complex(e) for e in p.E],
            keep=p.keep.astype(int),
            term_orders=sorted(p.terms_f),
            kwargs={k: (v if k != "subspace_eigenvectors" else "<vectors>") for k, v in p.kwargs.items()},
        )
    )
