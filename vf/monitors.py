"""In-situ monitors, installed by runtime patching of the real library objects (no repo edit).

Every monitor counts its evaluations in COUNTERS (a check that relies on a monitor is
inconclusive when the count is zero) and appends (kind, message) to VIOLATIONS.

kinds:  pending   - PENDING sentinel returned or left behind at an outermost return
        fp        - numpy RuntimeWarning (invalid / divide / overflow) raised from library code
        nonfinite - a solver returned a non-finite value
        sylvester - residual of a built-in Sylvester solver above tolerance
        greens    - direct_greens_function residual / projection above tolerance
        product   - product_by_order differs from the dense Cauchy sum of the cached factors
        write     - (raised by numpy itself) write into a read-only (poisoned) buffer
        causal    - a nested BlockSeries request at an order exceeding the outermost requested order
"""
from __future__ import annotations

import functools
import os
import warnings
import weakref
from collections import Counter

import numpy as np
import sympy
from scipy import sparse

COUNTERS: Counter = Counter()
VIOLATIONS: list = []
CONFIG = {
    "poison": False,      # mark arrays handed out by BlockSeries.__getitem__ read-only
    "product": True,      # product_by_order contract
    "solvers": True,      # Sylvester / Green's function residual monitors
    "max_dim": 64,        # densify operators only up to this dimension
}
_installed = False
_depth = 0
_outer_orders = None
_touched: "weakref.WeakSet" = weakref.WeakSet()
PRODUCT_STACK: list = []  # (index, first, second) of the product_by_order calls in progress
REPO = os.path.realpath(os.environ.get("VERIF_REPO", "/repo"))


def configure(cfg: dict):
    CONFIG.update({"poison": False, "product": True, "solvers": True, "max_dim": 64, "causal": False})
    CONFIG.update(cfg or {})


def reset():
    global _depth
    COUNTERS.clear()
    VIOLATIONS.clear()
    _depth = 0
    _touched.clear()
    PRODUCT_STACK.clear()


def drain():
    c, v = dict(COUNTERS), list(VIOLATIONS)
    COUNTERS.clear()
    VIOLATIONS.clear()
    return c, v


def violation(kind, msg):
    if len(VIOLATIONS) < 20:
        VIOLATIONS.append((kind, str(msg)[:600]))


# ------------------------------------------------------------------------------------------
def install():
    global _installed
    if _installed:
        return
    _installed = True
    import pymablock.block_diagonalization as bd
    import pymablock.linalg as la
    import pymablock.series as ser

    _install_warnings()
    _install_getitem(ser)
    _install_product(ser)
    _install_solvers(bd, la)
    _install_kpm_bounds(bd)


# ---- kpm.rescale: the documented contract of `lower_bounds` ---------------------------------------
def _install_kpm_bounds(bd):
    """`lower_bounds`: "energy interval to definitely include within the [-1, 1] rescaled energies" - the KPM solver
    passes the explicit energies there; an energy outside (-1, 1) makes the Chebyshev expansion meaningless (nan)."""
    import pymablock.kpm as kpm

    orig = kpm.rescale

    def rescale(hamiltonian, *args, **kwargs):
        out = orig(hamiltonian, *args, **kwargs)
        lb = kwargs.get("lower_bounds", args[2] if len(args) > 2 else None)
        if lb is not None:
            COUNTERS["kpm_rescale_with_bounds"] += 1
            try:
                a, b = out[1]
                x = (np.asarray(lb, dtype=float) - b) / a
                if not np.all(np.abs(x) < 1.0):
                    violation("kpm_bounds", f"kpm.rescale: the interval lower_bounds={list(map(float, lb))} is mapped to {x.tolist()}, outside (-1, 1)")
            except Exception as e:  # noqa: BLE001
                COUNTERS["kpm_rescale_monitor_error"] += 1
        return out

    kpm.rescale = rescale
    if getattr(bd, "rescale", None) is orig:
        bd.rescale = rescale


# ---- warnings ------------------------------------------------------------------------------
def _install_warnings():
    warnings.simplefilter("always")
    lib = os.path.join(REPO, "pymablock")

    def showwarning(message, category, filename, lineno, file=None, line=None):
        COUNTERS[f"warn_{category.__name__}"] += 1
        text = str(message)
        if issubclass(category, RuntimeWarning) and os.path.realpath(filename).startswith(lib):
            if "KPM expansion did not converge" in text:
                COUNTERS["kpm_not_converged_warning"] += 1
            elif any(k in text for k in ("invalid value", "divide by zero", "overflow")):
                violation("fp", f"{text} at {filename}:{lineno}")

    warnings.showwarning = showwarning


# ---- BlockSeries.__getitem__: quiescence, PENDING, poisoning ----------------------------------
def _poison(x):
    try:
        if isinstance(x, np.ndarray) and x.dtype != object:
            x.flags.writeable = False
        elif sparse.issparse(x):
            for name in ("data", "indices", "indptr", "row", "col"):
                arr = getattr(x, name, None)
                if isinstance(arr, np.ndarray):
                    arr.flags.writeable = False
    except Exception:
        pass


def _install_getitem(ser):
    orig = ser.BlockSeries.__getitem__
    PENDING = ser.PENDING

    def scan():
        for s in list(_touched):
            for idx, val in list(s._data.items()):
                if val is PENDING:
                    violation("pending", f"PENDING left in series {s.name!r} at {idx} after outermost return")

    def int_orders(self, item):
        if not isinstance(item, tuple):
            return None
        ords = item[len(self.shape):]
        if len(ords) != self.n_infinite or not ords:
            return None
        if all(isinstance(o, (int, np.integer)) for o in ords):
            return tuple(int(o) for o in ords)
        return None

    @functools.wraps(orig)
    def getitem(self, item):
        global _depth, _outer_orders
        _depth += 1
        _touched.add(self)
        if CONFIG.get("causal"):
            o = int_orders(self, item)
            if _depth == 1:
                _outer_orders = o
            elif o is not None and _outer_orders is not None and len(o) == len(_outer_orders):
                COUNTERS["causal_nested_requests"] += 1
                if any(a > b for a, b in zip(o, _outer_orders)):
                    violation("causal", f"nested request {self.name!r}[{item}] exceeds the outermost requested order {_outer_orders}")
        try:
            result = orig(self, item)
        finally:
            _depth -= 1
            if _depth == 0:
                COUNTERS["outermost_requests"] += 1
                scan()
        if result is PENDING:
            violation("pending", f"PENDING returned from {self.name!r}[{item}]")
        elif isinstance(result, np.ndarray) and result.dtype == object and not isinstance(result, np.ma.MaskedArray):
            pass
        if CONFIG["poison"]:
            if isinstance(result, np.ma.MaskedArray):
                for x in result.data.flat:
                    _poison(x)
            else:
                _poison(result)
        return result

    ser.BlockSeries.__getitem__ = getitem

    orig_pop = ser.BlockSeries.pop
    _popped = set()

    def pop(self, item, default, /):
        if item in self._data:
            COUNTERS["deletions"] += 1
        return orig_pop(self, item, default)

    ser.BlockSeries.pop = pop


# ---- product_by_order contract ---------------------------------------------------------------
def _numeric(x):
    return isinstance(x, np.ndarray) and x.dtype != object or sparse.issparse(x)


def _install_product(ser):
    import icontract

    orig = ser.product_by_order
    zero, one = ser.zero, ser.one

    class ProductBroken(Exception):
        pass

    def dense(x):
        return x.toarray() if sparse.issparse(x) else np.asarray(x)

    def cauchy_sum_matches(index, first, second, result, operator=None, hermitian=False):
        if not CONFIG["product"]:
            return True
        COUNTERS["product_calls"] += 1
        try:
            from operator import matmul

            op = operator or matmul
            if op is not matmul:
                COUNTERS["product_unobserved_operator"] += 1
                return True
            start, end, *orders = index
            total = None
            scale = 0.0
            import itertools

            for middle in range(first.shape[1]):
                for o1 in itertools.product(*(range(d + 1) for d in orders)):
                    o2 = tuple(i - j for i, j in zip(orders, o1))
                    a = first._data.get((start, middle, *o1), None)
                    b = second._data.get((middle, end, *o2), None)
                    if a is zero or b is zero:
                        continue
                    if a is None or b is None or a is ser.PENDING or b is ser.PENDING:
                        # not evaluated (legitimately, when the partner is absent) or deleted
                        if a is None and b is None:
                            COUNTERS["product_unobserved"] += 1
                            return True
                        COUNTERS["product_unobserved"] += 1
                        return True
                    if a is one and b is one:
                        COUNTERS["product_unobserved_one"] += 1
                        return True
                    if a is one:
                        term = b
                    elif b is one:
                        term = a
                    else:
                        if not (_numeric(a) and _numeric(b)):
                            COUNTERS["product_unobserved_type"] += 1
                            return True
                        term = dense(a) @ dense(b)
                    if not _numeric(term):
                        COUNTERS["product_unobserved_type"] += 1
                        return True
                    term = dense(term)
                    scale += float(np.abs(term).sum())
                    total = term if total is None else total + term
            if total is None:
                if result is zero:
                    COUNTERS["product_checked_zero"] += 1
                    return True
                if _numeric(result) and not np.any(np.abs(dense(result)) > 1e-12):
                    COUNTERS["product_checked_zero"] += 1
                    return True
                violation("product", f"product_by_order{index} of {first.name!r} and {second.name!r}: all terms absent but result is {type(result).__name__}")
                return True
            if result is zero:
                if np.any(np.abs(total) > 1e-9 * max(1.0, scale)):
                    violation("product", f"product_by_order{index}: result zero but dense Cauchy sum is not")
                COUNTERS["product_checked"] += 1
                return True
            if not _numeric(result):
                COUNTERS["product_unobserved_type"] += 1
                return True
            err = float(np.max(np.abs(dense(result) - total))) if total.size else 0.0
            COUNTERS["product_checked"] += 1
            if err > 1e-9 * max(1.0, scale):
                violation(
                    "product",
                    f"product_by_order{index} of {first.name!r} @ {second.name!r} (hermitian={hermitian}) differs from the dense Cauchy sum by {err:.3e}",
                )
        except Exception as e:  # the monitor must never disturb the run
            COUNTERS["product_monitor_error"] += 1
            COUNTERS[f"product_monitor_error_{type(e).__name__}"] += 1
        return True

    contracted = icontract.ensure(cauchy_sum_matches, error=ProductBroken)(orig)

    @functools.wraps(orig)
    def product_by_order(index, first, second, operator=None, hermitian=False):
        PRODUCT_STACK.append((tuple(index), first, second))
        try:
            return contracted(index, first, second, operator=operator, hermitian=hermitian)
        finally:
            PRODUCT_STACK.pop()

    ser.product_by_order = product_by_order


# ---- solver monitors -----------------------------------------------------------------------------
def _dense_op(x):
    if sparse.issparse(x):
        return np.asarray(x.toarray())
    return np.asarray(x)


def _check_diagonal_solver(eigs, atol, Y, index, V, label):
    from pymablock.series import zero

    if Y is zero:
        return
    eA, eB = eigs[index[0]], eigs[index[1]]
    if isinstance(Y, sympy.MatrixBase):
        COUNTERS["sylvester_sympy"] += 1
        a = np.array(eA, dtype=object).reshape(-1, 1)
        b = np.array(eB, dtype=object).reshape(1, -1)
        dE = np.broadcast_to(a - b, Y.shape) if True else None
        for i in range(Y.shape[0]):
            for j in range(Y.shape[1]):
                d = sympy.simplify(dE[i, j])
                if d == 0:
                    if sympy.simplify(V[i, j]) != 0:
                        violation("sylvester", f"{label} sympy: V[{i},{j}] non-zero at a degenerate pair, index={index}")
                        return
                elif sympy.simplify(d * V[i, j] - Y[i, j]) != 0:
                    violation("sylvester", f"{label} sympy: residual non-zero at [{i},{j}], index={index}")
                    return
        return
    if not (_numeric(Y) and _numeric(V)):
        COUNTERS["sylvester_unobserved_type"] += 1
        return
    branch = "sparse" if sparse.issparse(Y) else "dense"
    COUNTERS[f"sylvester_{branch}"] += 1
    if sparse.issparse(Y) != sparse.issparse(V):
        COUNTERS["sylvester_type_changed"] += 1
    Yd, Vd = _dense_op(Y), _dense_op(V)
    if not np.all(np.isfinite(Vd)):
        violation("nonfinite", f"{label} ({branch}) returned non-finite values for index={index}")
        return
    eA = np.asarray(eA).reshape(-1, 1) if np.ndim(eA) else np.asarray(eA)
    eB = np.asarray(eB).reshape(1, -1) if np.ndim(eB) else np.asarray(eB)
    dE = np.broadcast_to(eA - eB, Yd.shape)
    deg = np.abs(dE) <= atol
    res = np.where(deg, Vd, dE * Vd - Yd)
    scale = max(1.0, float(np.max(np.abs(Yd), initial=0.0)), float(np.max(np.abs(dE * Vd), initial=0.0)))
    if np.any(deg):
        COUNTERS["sylvester_degenerate_pairs"] += 1
    if float(np.max(np.abs(res), initial=0.0)) > 1e-9 * scale:
        violation("sylvester", f"{label} ({branch}) residual {float(np.max(np.abs(res))):.3e} for index={index}")


def _install_solvers(bd, la):
    from pymablock.series import zero

    # -- diagonal solver
    orig_diag = bd.solve_sylvester_diagonal

    @functools.wraps(orig_diag)
    def solve_sylvester_diagonal(eigs, vecs_implicit=None, atol=1e-12):
        inner = orig_diag(eigs, vecs_implicit, atol)
        if vecs_implicit is not None:
            return inner

        def solve_sylvester(Y, index):
            V = inner(Y, index)
            if CONFIG["solvers"]:
                try:
                    _check_diagonal_solver(eigs, atol if atol is not None else 0.0, Y, index, V, "solve_sylvester_diagonal")
                except Exception as e:
                    COUNTERS[f"sylvester_monitor_error_{type(e).__name__}"] += 1
            return V

        return solve_sylvester

    bd.solve_sylvester_diagonal = solve_sylvester_diagonal

    # -- direct Green's function
    orig_gf = la.direct_greens_function

    @functools.wraps(orig_gf)
    def direct_greens_function(h, E, kernel_vectors=None, left_kernel_vectors=None, **kw):
        inner = orig_gf(h, E, kernel_vectors=kernel_vectors, left_kernel_vectors=left_kernel_vectors, **kw)
        n = h.shape[0]
        if not CONFIG["solvers"] or n > CONFIG["max_dim"]:
            return inner
        hd = _dense_op(h).astype(complex)
        K = np.zeros((n, 0), complex) if kernel_vectors is None else np.asarray(kernel_vectors, complex)
        L = K if left_kernel_vectors is None else np.asarray(left_kernel_vectors, complex)
        P = np.eye(n) - K @ L.conj().T
        M = E * np.eye(n) - hd

        def greens_function(vec):
            v0 = np.array(vec, dtype=complex, copy=True)
            x = inner(vec)
            try:
                COUNTERS["greens_calls"] += 1
                if K.shape[1] > 1:
                    COUNTERS["greens_degenerate_kernel"] += 1
                xd = np.asarray(x, complex)
                if not np.all(np.isfinite(xd)):
                    violation("nonfinite", "direct_greens_function returned non-finite values")
                    return x
                scale = max(1.0, float(np.linalg.norm(v0)), float(np.linalg.norm(hd, 2) * np.linalg.norm(xd)))
                r1 = float(np.linalg.norm(M @ xd - P @ v0))
                r2 = float(np.linalg.norm(P @ xd - xd))
                if r1 > 1e-7 * scale:
                    violation("greens", f"(E-H)x = Pv residual {r1:.3e} (scale {scale:.2e}), kernel dim {K.shape[1]}")
                if r2 > 1e-7 * scale:
                    violation("greens", f"Px = x residual {r2:.3e}, kernel dim {K.shape[1]}")
            except Exception as e:
                COUNTERS[f"greens_monitor_error_{type(e).__name__}"] += 1
            return x

        return greens_function

    la.direct_greens_function = direct_greens_function
    bd.direct_greens_function = direct_greens_function

    # -- direct Sylvester solver (implicit mode)
    orig_direct = bd.solve_sylvester_direct

    @functools.wraps(orig_direct)
    def solve_sylvester_direct(h_0, eigenvectors, **kw):
        inner = orig_direct(h_0, eigenvectors, **kw)
        n = h_0.shape[0]
        if not CONFIG["solvers"] or n > CONFIG["max_dim"]:
            return inner
        hd = _dense_op(h_0).astype(complex)
        Rs = [np.asarray(e[0] if isinstance(e, tuple) else e, complex) for e in eigenvectors]
        Ls = [np.asarray(e[1] if isinstance(e, tuple) else e, complex) for e in eigenvectors]
        R, L = np.hstack(Rs), np.hstack(Ls)
        P = np.eye(n) - R @ L.conj().T
        Es = [np.diag(l.conj().T @ hd @ r) for r, l in zip(Rs, Ls)]
        nb = len(Rs)

        def solve_sylvester(Y, index):
            V = inner(Y, index)
            if Y is zero or V is zero:
                return V
            try:
                if index[0] < nb and index[1] < nb:
                    return V  # explicit part: monitored through the diagonal solver
                Yd, Vd = np.asarray(Y, complex), np.asarray(V, complex)
                if not np.all(np.isfinite(Vd)):
                    violation("nonfinite", f"solve_sylvester_direct returned non-finite values for index={index}")
                    return V
                hn = float(np.linalg.norm(hd, 2))
                if index[1] == nb:  # right-implicit: E_a V_a - V_a h_0 = Y_a P,  V P = V
                    COUNTERS["sylvester_direct_right"] += 1
                    E = Es[index[0]].reshape(-1, 1)
                    res = E * Vd - Vd @ hd - Yd @ P
                    proj = Vd @ P - Vd
                else:  # left-implicit: h_0 V - V E_b = P Y, P V = V
                    COUNTERS["sylvester_direct_left"] += 1
                    E = Es[index[1]].reshape(1, -1)
                    res = hd @ Vd - Vd * E - P @ Yd
                    proj = P @ Vd - Vd
                if np.iscomplexobj(np.asarray(Y)) or np.iscomplexobj(_dense_op(h_0)):
                    COUNTERS["sylvester_direct_complex"] += 1
                scale = max(1.0, float(np.linalg.norm(Yd)), hn * float(np.linalg.norm(Vd)))
                if float(np.linalg.norm(res)) > 1e-7 * scale:
                    violation("sylvester", f"solve_sylvester_direct residual {float(np.linalg.norm(res)):.3e} for index={index}")
                if float(np.linalg.norm(proj)) > 1e-7 * scale:
                    violation("sylvester", f"solve_sylvester_direct result not in the implicit subspace ({float(np.linalg.norm(proj)):.3e}) for index={index}")
            except Exception as e:
                COUNTERS[f"sylvester_monitor_error_{type(e).__name__}"] += 1
            return V

        return solve_sylvester

    bd.solve_sylvester_direct = solve_sylvester_direct
