"""C17 - complement projector equals the matrix 1 - R L^dagger under every operator operation."""
from __future__ import annotations

from collections import Counter

import numpy as np
from scipy import sparse

from vf.util import Violation, jsonable, rng_for

ID = "C17"
LEVEL = "exploration"
RULE = (
    "random right/left vector sets (real/complex and mixed real/complex or float32 dtypes, L = R orthonormal, L != R biorthogonal, also non-biorthogonal and rank-0), random "
    "operator-expression trees of depth <= 4 over {P, sparse A, dense B, .T, .H, P.conjugate(), @, +, scalar*} are evaluated twice - "
    "with scipy LinearOperators built on the real ComplementProjector and with dense matrices built on 1 - R L^dagger - and applied "
    "to random real/complex vectors and matrices from the left (op @ x) and from the right (x @ op), plus matvec/rmatvec/matmat/"
    "rmatmat called directly; idempotency P P = P when L^dagger R = 1; shape/dtype consistency; caching identities (P.T.T is P, "
    "P.H.H is P, P.conjugate().conjugate() is P). Non-trivial: tree containing P under at least one of T/H/conj and a composition; "
    "distinct = (tree shape string, real/complex, hermitian/biorthogonal, operand kind)"
)
ASSUMPTIONS = [
    "scipy's LinearOperator composition rules are trusted for the non-projector nodes; the dense expression is the reference",
    "comparison to 1e-10 x size of terms",
]
BUDGET = {"quick": dict(cases=12000, seconds=300), "thorough": dict(cases=200000, seconds=420)}
CASE_TIMEOUT = 60
MONITORS = {"product": False, "solvers": False}
MONITOR_VERDICTS = ()


def plan(tier, seed):
    rng = rng_for(17, seed)
    return [dict(case=int(rng.integers(0, 2**31))) for _ in range(BUDGET[tier]["cases"])]


def _tree(rng, depth, leaves):
    """Returns (fn_op, fn_dense, description, uses_P_under_unary, has_composition)"""
    r = rng.random()
    if depth == 0 or r < 0.25:
        k = int(rng.integers(0, len(leaves)))
        name = leaves[k][0]
        return (lambda env, k=k: env["op"][k]), (lambda env, k=k: env["dense"][k]), name, False, False
    if r < 0.5:
        sub = _tree(rng, depth - 1, leaves)
        which = ["T", "H", "conjP"][int(rng.integers(0, 3))]
        if which == "conjP":
            # conjugate() exists on the projector itself only
            pk = [k for k, l in enumerate(leaves) if l[0] == "P"][0]
            return (lambda env: env["op"][pk].conjugate()), (lambda env: env["dense"][pk].conj()), "conj(P)", True, False
        if which == "T":
            return (lambda env: sub[0](env).T), (lambda env: sub[1](env).T), f"({sub[2]}).T", ("P" in sub[2]) or sub[3], sub[4]
        return (lambda env: sub[0](env).H), (lambda env: sub[1](env).conj().T), f"({sub[2]}).H", ("P" in sub[2]) or sub[3], sub[4]
    if r < 0.85:
        a, b = _tree(rng, depth - 1, leaves), _tree(rng, depth - 1, leaves)
        return (lambda env: a[0](env) @ b[0](env)), (lambda env: a[1](env) @ b[1](env)), f"({a[2]} @ {b[2]})", a[3] or b[3], True
    if r < 0.93:
        a, b = _tree(rng, depth - 1, leaves), _tree(rng, depth - 1, leaves)
        return (lambda env: a[0](env) + b[0](env)), (lambda env: a[1](env) + b[1](env)), f"({a[2]} + {b[2]})", a[3] or b[3], a[4] or b[4]
    sub = _tree(rng, depth - 1, leaves)
    c = complex(int(rng.integers(-3, 4)) or 2, int(rng.integers(-2, 3)))
    return (lambda env: c * sub[0](env)), (lambda env: c * sub[1](env)), f"{c}*{sub[2]}", sub[3], sub[4]


def run_case(spec):
    from pymablock.linalg import ComplementProjector, aslinearoperator

    rng = rng_for(17, spec["case"])
    counters = Counter()
    N = int(rng.integers(2, 9))
    k = int(rng.integers(0, N))
    cplx = bool(rng.integers(0, 2))
    mode = str(rng.choice(["hermitian", "hermitian_same_object", "biorthogonal", "generic", "generic_mixed", "biorthogonal_mixed", "near_hermitian"]))
    low_precision = False

    def rnd(shape):
        a = rng.integers(-6, 7, size=shape) / 4.0
        return a + 1j * rng.integers(-6, 7, size=shape) / 4.0 if cplx else a

    if mode in ("hermitian", "hermitian_same_object"):
        Q = np.linalg.qr(rnd((N, N)) + np.eye(N) * 3)[0]
        R = Q[:, :k]
        L = R if mode == "hermitian_same_object" else R.copy()
        P = ComplementProjector(R) if mode == "hermitian_same_object" and rng.random() < 0.5 else ComplementProjector(R, L)
        biorth = True
    elif mode == "near_hermitian":
        # left vectors of a weakly non-Hermitian problem: L = R + eps W with W^dagger R = 0 (so L^dagger R = 1), a genuinely
        # different set that is "close" to R in the sense of numpy's default allclose window
        Q = np.linalg.qr(rnd((N, N)) + np.eye(N) * 3)[0]
        R = Q[:, :k]
        eps = float(rng.choice([1e-5, 1e-6, 1e-7, 1e-8]))
        L = R + eps * (Q[:, k:] @ rnd((N - k, k)))
        if rng.random() < 0.5:
            R, L = L, R
        P = ComplementProjector(R, L)
        biorth = True
    elif mode == "biorthogonal":
        M = rnd((N, N)) + 3 * np.eye(N)
        Mi = np.linalg.inv(M)
        R, L = M[:, :k], Mi.conj().T[:, :k]
        P = ComplementProjector(R, L)
        biorth = True
    elif mode == "generic_mixed":
        # one vector set real, the other complex (dtype mixture)
        A1 = rng.integers(-6, 7, size=(N, k)) / 4.0
        A2 = rng.integers(-6, 7, size=(N, k)) / 4.0 + 1j * rng.integers(-6, 7, size=(N, k)) / 4.0
        R, L = (A1, A2) if rng.random() < 0.5 else (A2, A1)
        if rng.random() < 0.3:
            R = R.astype(np.float32 if np.isrealobj(R) else np.complex64)
            low_precision = True
        P = ComplementProjector(R, L)
        biorth = False
        cplx = True
    elif mode == "biorthogonal_mixed":
        # real R, complex L with L^dagger R = 1 (or the other way round): L = R (R^T R)^-1 + i Nn, Nn^T R = 0
        Rr = rng.integers(-6, 7, size=(N, k)) / 4.0 + np.eye(N)[:, :k] * 3
        Lr = Rr @ np.linalg.inv(Rr.T @ Rr) if k else Rr
        Z = rng.integers(-6, 7, size=(N, k)) / 4.0
        Nn = Z - Rr @ np.linalg.solve(Rr.T @ Rr, Rr.T @ Z) if k else Z
        Lc = Lr + 1j * Nn
        R, L = (Rr, Lc) if rng.random() < 0.5 else (Lc, Rr)
        P = ComplementProjector(R, L)
        biorth = True
        cplx = True
    else:
        R, L = rnd((N, k)), rnd((N, k))
        P = ComplementProjector(R, L)
        biorth = False
    D = np.eye(N) - R @ L.conj().T
    counters[f"mode_{mode}"] += 1
    counters["complex" if cplx else "real"] += 1
    # shape / dtype
    if tuple(P.shape) != (N, N):
        raise Violation(f"shape {P.shape} != {(N, N)}")
    want_dtype = np.result_type(R.dtype, L.dtype)
    # (with no vectors at all the projector is the identity and either dtype is consistent)
    if k > 0 and np.dtype(P.dtype) != want_dtype:
        raise Violation(f"dtype {P.dtype} != result_type of the vectors {want_dtype}")
    # caching identities
    if P.T.T is not P or P.H.H is not P or P.conjugate().conjugate() is not P:
        raise Violation("cached transforms are not involutive (P.T.T / P.H.H / conj(conj(P)) is not P)")
    counters["caching_identities"] += 1
    A = sparse.csr_array(np.where(rng.random((N, N)) < 0.5, rnd((N, N)), 0))
    B = rnd((N, N))
    leaves = [("P", None), ("A", None), ("B", None)]
    env = {"op": [P, aslinearoperator(A), aslinearoperator(B)], "dense": [D, A.toarray(), B]}

    def close(got, want, what):
        got = np.asarray(got)
        if got.shape != np.asarray(want).shape:
            raise Violation(f"{what}: shape {got.shape} != {np.asarray(want).shape}")
        scale = max(1.0, float(np.abs(want).max(initial=0)))
        err = float(np.abs(got - want).max(initial=0))
        # (orthonormal / nearly orthonormal vector sets are perfectly conditioned: tight tolerance; general biorthogonal
        # sets amplify rounding by (|R| |L|) per projector factor of the expression: 1e-8 as before)
        tight = mode in ("hermitian", "hermitian_same_object", "near_hermitian")
        if not err <= (1e-6 if low_precision else 2e-11 if tight else 1e-8) * scale:
            raise Violation(f"{what}: differs from the dense expression by {err:.3e} (scale {scale:.3g}); mode={mode}, complex={cplx}")
        counters["comparisons"] += 1

    # direct method calls
    x = rnd((N,)) + (1j * rng.integers(-4, 5, size=N) / 4.0 if rng.random() < 0.5 else 0)
    X = rnd((N, int(rng.integers(1, 4))))
    close(P.matvec(x), D @ x, "P.matvec")
    close(P.rmatvec(x), D.conj().T @ x, "P.rmatvec (A^H x)")
    close(P.matmat(X), D @ X, "P.matmat")
    close(P.rmatmat(X), D.conj().T @ X, "P.rmatmat (A^H X)")
    close(P @ x, D @ x, "P @ x")
    close(x @ P, x @ D, "x @ P")
    close(X.T @ P, X.T @ D, "X @ P")
    close(P.T @ x, D.T @ x, "P.T @ x")
    close(P.H @ x, D.conj().T @ x, "P.H @ x")
    close(P.conjugate() @ x, D.conj() @ x, "conj(P) @ x")
    close(P._apply(x), D @ x, "P._apply")
    close(P.T.H @ x, D.conj() @ x, "P.T.H @ x")
    close(P.H.T @ x, D.conj() @ x, "P.H.T @ x")
    close(P.H.conjugate() @ x, D.T @ x, "conj(P.H) @ x")
    close(P.conjugate().T @ x, D.conj().T @ x, "conj(P).T @ x")
    close(P.T.conjugate() @ x, D.conj().T @ x, "conj(P.T) @ x")
    close(P.conjugate().H @ x, D.T @ x, "conj(P).H @ x")
    if biorth:
        close(P @ (P @ X), D @ X, "idempotency P P X = P X")
        counters["idempotency_checks"] += 1
    # random trees
    sigs = []
    nontrivial = False
    for rep in range(4):
        f_op, f_d, desc, unaryP, comp = _tree(rng, int(rng.integers(1, 5)), leaves)
        try:
            op = f_op(env)
        except Exception as e:  # noqa: BLE001
            raise Violation(f"building {desc} raised {type(e).__name__}: {e}")
        dense = f_d(env)
        operand = str(rng.choice(["vec_left", "vec_right", "mat_left", "mat_right"]))
        try:
            if operand == "vec_left":
                got, want = op @ x, dense @ x
            elif operand == "vec_right":
                got, want = x @ op, x @ dense
            elif operand == "mat_left":
                got, want = op @ X, dense @ X
            else:
                got, want = X.T @ op, X.T @ dense
        except Exception as e:  # noqa: BLE001
            raise Violation(f"applying {desc} ({operand}) raised {type(e).__name__}: {e}")
        close(got, want, f"{desc} [{operand}]")
        counters["trees"] += 1
        if "P" in desc:
            counters["trees_with_P"] += 1
        if unaryP and comp:
            nontrivial = True
            counters["trees_P_under_unary_in_composition"] += 1
        sigs.append(desc[:60])
    return dict(verdict="held", sig=[sigs[0], cplx, mode, N, k], nontrivial=nontrivial, counters=dict(counters),
                sample=jsonable(dict(N=N, k=k, complex=cplx, mode=mode, trees=sigs)))


def finalize(c, tier, evaluations, distinct):
    reasons = []
    need = dict(comparisons=20000, trees_with_P=3000, trees_P_under_unary_in_composition=300, idempotency_checks=500,
                mode_biorthogonal=200, mode_hermitian=200, mode_generic=200, mode_generic_mixed=200, mode_biorthogonal_mixed=200, mode_near_hermitian=200, complex=500, real=500)
    for k, v in need.items():
        if c.get(k, 0) < v:
            reasons.append(f"{k} observed only {c.get(k, 0)} (< {v})")
    return reasons
