"""C05 - non-Hermitian: U_inv inverts U, U_inv H U = H_tilde, eliminated part zero, gauge."""
import numpy as np

from vf import matprob, oracles
from vf.models.refsolve import documented_nonhermitian, ref_solve
from vf.util import Violation, rng_for

ID = "C05"
LEVEL = "exploration"
RULE = (
    "seeded random problems run with hermitian=False: arbitrary square complex perturbations, complex H_0 eigenvalues, asymmetric "
    "masks, biorthogonal (R,L) designation, in four structural classes generated on purpose (degblocks: H_0 proportional to 1 "
    "inside each block; fd: full diagonalisation; mask; generic) plus Hermitian inputs (herm_input) that are also run with "
    "hermitian=True and compared. Oracles on the returned elements: U_inv U = U U_inv = 1, U_inv H U = H_tilde on kept / 0 on "
    "eliminated, kept part of U - U_inv zero, equality with reference solver R1. A failing case is reported as KNOWN-FINDING F4 "
    "only if it has a kept off-diagonal pair with E_i != E_j AND the three outputs equal the documented recurrence R2; any other "
    "failure is a violation. Non-trivial: perturbation couples an eliminated pair, order bound >= 2"
)
ASSUMPTIONS = [
    "inputs inside the domain: H_0 diagonal in the designated (bi)orthogonal basis, distinct energies across blocks and across eliminated pairs (gaps >= 0.5), masks False on degenerate pairs",
    "float comparisons |err| <= 1e-9 x size of contributing terms; exact (sympy) inputs compared with ==",
    "known finding F4 is classified, not silenced: inverse identities are asserted unconditionally, and a case outside F4's predicate or not matching the documented recurrence is reported as a violation",
]
BUDGET = {"quick": dict(cases=500, seconds=300), "thorough": dict(cases=12000, seconds=540)}
CASE_TIMEOUT = 150
MONITORS = {"poison": True}
MONITOR_VERDICTS = ("fp", "nonfinite", "write")

CLASSES = ["degblocks", "fd", "mask", "generic", "herm_input", "herm_input_deg"]


def plan(tier, seed):
    rng = rng_for(5, seed, 17)
    specs = []
    for i in range(BUDGET[tier]["cases"]):
        cls = CLASSES[i % len(CLASSES)]
        force = {}
        if cls == "degblocks":
            force = dict(degblocks=True, sel=str(rng.choice(["none", "none", "mask"])))
        elif cls == "fd":
            force = dict(sel=str(rng.choice(["fd_all", "fd_some"])))
        elif cls == "mask":
            force = dict(sel="mask")
        elif cls == "generic":
            force = dict(sel="none", degenerate=False)
        elif cls == "herm_input":
            force = dict(herm_values=True)
        elif cls == "herm_input_deg":
            force = dict(herm_values=True, degblocks=True, sel="none")
        spec = matprob.gen_spec(rng, tier, hermitian=False, **force)
        if spec["nblocks"] == 1 and cls in ("generic", "degblocks", "herm_input_deg"):
            spec["sizes"] = spec["sizes"] + [int(rng.integers(1, 3))]
            spec["sel"] = force.get("sel", "none")
            matprob.normalise(spec, tier == "thorough")
        spec["cls"] = cls
        spec["shuffle"] = int(rng.integers(0, 2**31))
        specs.append(spec)
    return specs


def f4_predicate(p):
    offdiag = ~np.eye(p.N, dtype=bool)
    Ec = np.array([complex(e) for e in p.E])
    return bool(np.any(p.keep & offdiag & (Ec[:, None] != Ec[None, :])))


def _float(D):
    return {n: np.array([[complex(x) for x in row] for row in M], dtype=complex) if M.dtype == object else M for n, M in D.items()}


def run_case(spec):
    p = matprob.build(spec)
    out = matprob.call_library(p)
    Ht, U, G = matprob.extract(out, p, rng=rng_for(spec["shuffle"]))
    oracles.finite_check(p, Ht, U, G)
    counters = {
        f"class_{spec['cls']}": 1,
        f"vtype_{spec['vtype']}": 1,
        f"design_{spec['design']}": 1,
        f"blocks_{spec['nblocks']}": 1,
        "asymmetric_mask": int(any(not np.array_equal(m, m.T) for m in p.masks.values())),
        "biorthogonal_basis": int(spec["design"] == "vectors"),
        "complex_energies": int(any(complex(e).imag != 0 for e in p.E)),
    }
    predicate = f4_predicate(p)
    counters["f4_predicate_true"] = int(predicate)
    # 1. inverse identities hold even under F4: always asserted
    oracles.check_inverse(p, U, G, what="U_inv")
    # 2. the other oracles
    failure = None
    try:
        oracles.check_transform(p, Ht, U, G, what="U_inv H U")
        oracles.check_gauge(p, U, G)
        ref = ref_solve(matprob.terms(p), p.keep, p.orders, hermitian=False, exact=p.exact)
        bad = oracles.compare_with(p, (Ht, U, G), ref)
        if bad:
            raise Violation(bad)
        if spec.get("herm_values") and spec["design"] != "vectors":
            # (R, L) pairs are not accepted in Hermitian mode: differential only for the other designations
            out_h = matprob.call_library(p, hermitian=True)
            Hh, Uh, Gh = matprob.extract(out_h, p)
            bad = oracles.compare_with(p, (Ht, U, G), (Hh, Uh, Gh), label="Hermitian-mode output")
            counters["hermitian_mode_differentials"] = 1
            if bad:
                raise Violation(bad)
    except Violation as v:
        failure = str(v)
    nontrivial = oracles.perturbation_couples_eliminated(p) and spec["max_total"] >= 2
    res = dict(sig=matprob.signature(spec) + [spec["cls"]], nontrivial=nontrivial, counters=counters, sample=matprob.sample_of(p))
    if failure is None:
        res["verdict"] = "held"
        return res
    # ---- classify: known finding F4 or a new violation
    if predicate:
        doc = documented_nonhermitian(p.terms_f, p.keep, p.orders)
        same = oracles.compare_with(
            Problem_f(p), (_float(Ht), _float(U), _float(G)), doc, label="documented recurrence", rtol=1e-8
        )
        if same is None:
            res.update(verdict="known", finding="F4", detail=failure)
            return res
        failure += f" | and the output is NOT the documented recurrence either: {same}"
    res.update(verdict="violation", detail=failure)
    return res


class Problem_f:
    """float view of a problem for compare_with"""

    def __init__(self, p):
        self.orders, self.exact, self.N, self.n_par = p.orders, False, p.N, p.n_par
        self.terms_f, self.keep = p.terms_f, p.keep


def finalize(c, tier, evaluations, distinct):
    reasons = []
    for cls in CLASSES:
        if c.get(f"class_{cls}", 0) < 20:
            reasons.append(f"class {cls} observed only {c.get('class_' + cls, 0)} times")
    for k in ("asymmetric_mask", "biorthogonal_basis", "complex_energies", "hermitian_mode_differentials", "vtype_sympy", "vtype_sparse"):
        if c.get(k, 0) < 5:
            reasons.append(f"{k} observed only {c.get(k, 0)} times")
    return reasons
