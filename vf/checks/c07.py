"""C07 - second-quantised block diagonalisation agrees with matrices on Fock states."""
from __future__ import annotations

import warnings
from collections import Counter

import numpy as np
import sympy
from sympy.physics.quantum import Dagger, pauli
from sympy.physics.quantum.boson import BosonOp

from vf import secondq
from vf.models.cauchy import cprod
from vf.models.refsolve import ref_solve
from vf.util import Inconclusive, Violation, jsonable, rng_for

ID = "C07"
LEVEL = "exploration"
RULE = (
    "generated second-quantised problems: H_0 = sum_k omega_k N_k (+ anharmonic N^2, + matrix-valued two-level structure) with "
    "pairwise incommensurate rational omega, H_1 a random Hermitian polynomial of degree <= 2 (drives, hopping, pairing c_i c_j + "
    "h.c., squeezing, number-dependent couplings, spin-boson couplings) over bosons, fermions, spins and ladder operators. Families: "
    "scalar (expression input, Fock-diagonal result), blocks (2x2 operator-valued matrix with subspace_indices), matrix_fd (2x2 "
    "operator-valued matrix, fully diagonalised), multiblock (3x3 operator-valued matrix in 2-3 blocks, optionally one block fully diagonalised), mask (elimination mask given as operator powers incl. a symbolic power a**(k+2)). "
    "Every order n <= 2-3 of the operator-valued H_tilde and U is denoted as a matrix on a truncated Fock space (R4) and compared, "
    "between low-lying Fock states (vacuum and first excited occupations), with the dense reference solver R1 run on the denoted "
    "input matrices with the keep-set derived from the selection (Fock-diagonal / same matrix index / mask -> occupation shifts); "
    "cut-off = low + order*degree + 2, and the comparison is repeated with cut-off + 2: a reference that changes makes the case "
    "inconclusive. The operator identities U^dagger U = 1 and U^dagger H U = H_tilde are checked through the same denotation on the "
    "low columns. Non-trivial: order >= 2 and the perturbation changes occupations; distinct = (family, modes, H_1 structure)"
)
ASSUMPTIONS = [
    "levels coupled by the perturbation are non-degenerate (incommensurate rational frequencies); accidental degeneracies among far states are treated as kept in the reference",
    "matrix model vf/models/fock.py and reference solver vf/models/refsolve.py are the trusted base; tolerance 1e-7 relative",
    "known finding F23 is classified by mechanism, not silenced: a mismatch is attributed to it only if the case has a model state whose level equals the continuation of a level at a non-existent occupation and every mismatching element lies on a chain of <= order perturbation steps through such a state; any other mismatch is a violation",
]
BUDGET = {"quick": dict(cases=150, seconds=300), "thorough": dict(cases=2400, seconds=560)}
CASE_TIMEOUT = 150
MONITORS = {"product": False, "solvers": False}
MONITOR_VERDICTS = ()
# 9 families x 8 mode sets (coprime): every family meets every mode set
FAMILIES = ["scalar", "scalar", "scalar_matrix1", "blocks", "matrix_fd", "mask", "multiblock", "multiblock", "mask2",
            "scalar", "bigmatrix"]  # 11 families x 8 mode sets (coprime)


def plan(tier, seed):
    rng = rng_for(7, seed)
    fams = ["bosons", "fermions", "mixed", "spin", "ladder", "bosons", "ladder", "fermions"]
    cases = [dict(case=int(rng.integers(0, 2**31)), family=FAMILIES[i % len(FAMILIES)], modes=fams[i % len(fams)], thorough=(tier == "thorough"))
             for i in range(BUDGET[tier]["cases"])]
    # the recorded failing input of known finding F23 is part of every run: it is reported as KNOWN-FINDING while the
    # library returns the wrong vacuum element, and simply holds once the library is repaired
    return [dict(case=23, family="matrix_fd", modes="bosons", thorough=False, witness="F23")] + cases


def _reference(M, H0m, H1m, keep, orders):
    E = np.diag(H0m).real
    deg = np.abs(E[:, None] - E[None, :]) < 1e-9
    # degenerate levels that are to be decoupled matter only if the perturbation connects them within the orders computed
    A = (np.abs(H1m) > 1e-14).astype(float) + np.eye(len(E))
    reach = np.linalg.matrix_power(A, max(1, max(sum(n) for n in orders))) > 0
    if np.any(deg & ~keep & reach):
        # two distinct levels of the truncated space that are to be decoupled are degenerate: the perturbation couples
        # them at some order, which is outside the property's domain (it would need degenerate perturbation theory)
        raise Inconclusive("accidental degeneracy between levels that are to be decoupled (outside the domain)")
    keep = keep | deg
    with np.errstate(all="ignore"):
        return ref_solve({(0,): np.diag(E).astype(complex), (1,): H1m}, keep, orders, hermitian=True, exact=False)


def _phantom_states(M, ops, H0b, kdim, reach):
    """Known finding F23: states (i, n) of the model whose level E_i(n) equals the analytic continuation E_j(n + s) of a
    level at an occupation that does not exist (negative boson occupation, fermion / spin occupation outside {0, 1}) for
    some shift |s_k| <= reach.  The library keeps energy denominators as rational functions of the number operators and
    lets sympy cancel N / N, which is wrong exactly on such states."""
    import itertools

    from pymablock.number_ordered_form import LadderOp, NumberOperator

    m = len(ops)
    syms = [sympy.Symbol(f"occ{k}", real=True) for k in range(m)]
    rep = {NumberOperator(o): x for o, x in zip(ops, syms)}
    fs = []
    for i in range(kdim):
        e = sympy.sympify(H0b[i][i]).xreplace(rep)
        if e.free_symbols - set(syms) or e.atoms(sympy.Function):
            return None
        fs.append(sympy.lambdify(syms, e, "numpy"))
    occ = M.occ.astype(float)
    D = M.D
    Ephys = [np.broadcast_to(np.asarray(f(*occ.T), dtype=float), (D,)) for f in fs]
    bounded = [None if isinstance(o, LadderOp) else (np.inf if isinstance(o, BosonOp) else 1) for o in ops]
    out = np.zeros(kdim * D, bool)
    rng_ = range(-reach, reach + 1)
    for s in itertools.product(*[rng_ if b is not None else (0,) for b in bounded]):
        if not any(s):
            continue
        tgt = occ + np.array(s, float)
        unphys = np.zeros(D, bool)
        for k, b in enumerate(bounded):
            if b is not None:
                unphys |= (tgt[:, k] < 0) | (tgt[:, k] > b)
        if not unphys.any():
            continue
        for j in range(kdim):
            Ej = np.broadcast_to(np.asarray(fs[j](*tgt.T), dtype=float), (D,))
            for i in range(kdim):
                hit = unphys & (np.abs(Ephys[i] - Ej) < 1e-9)
                out[i * D:(i + 1) * D] |= hit
    return out


def _attributable(bad, sel, phantom, H1m, order):
    """every mismatching element (x, y) lies on a chain of at most `order` perturbation steps through a phantom state"""
    if phantom is None or not phantom.any():
        return False
    N = len(phantom)
    A = (np.abs(H1m) > 1e-14) | np.eye(N, dtype=bool)
    dist = np.full((N, N), np.inf)
    cur = np.eye(N, dtype=bool)
    for d in range(order + 1):
        dist[cur & np.isinf(dist)] = d
        cur = (cur.astype(float) @ A.astype(float)) > 0
    P = np.where(phantom)[0]
    for x, y in np.argwhere(bad):
        gx, gy = sel[x], sel[y]
        if not np.min(dist[gx, P] + dist[P, gy]) <= order:
            return False
    return True


def run_case(spec):
    from pymablock import block_diagonalize
    from pymablock.number_ordered_form import LadderOp, NumberOperator, generator_types
    from pymablock.series import one, zero

    rng = rng_for(7, spec["case"])
    counters = Counter()
    family = spec["family"]
    g = sympy.Symbol("g", real=True)
    ops = secondq.modes(rng, spec["modes"] if family in ("scalar", "scalar_matrix1") else "bosons" if family == "mask" else str(rng.choice(["bosons", "mixed", "spin", "ladder"])))
    if family in ("mask", "bigmatrix") or spec.get("witness"):
        ops = [BosonOp("a")]
    if family == "mask2":
        ops = [BosonOp("a"), BosonOp("b")] if rng.random() < 0.6 else [BosonOp("a"), pauli.SigmaMinus("s")]
    ops = sorted(ops, key=lambda op: (generator_types.index(type(op)), str(op.name)))
    n_modes = len(ops)
    max_order = 3 if n_modes == 1 else 2
    if spec.get("thorough") and n_modes <= 2 and rng.random() < 0.3:
        max_order += 1
    low = 1
    h0 = secondq.random_h0(rng, ops)
    h1, deg = secondq.random_h1(rng, ops, max_terms=3)
    kdim = 1
    mask_shifts = None
    multi_layout, multi_fd = None, ()
    with warnings.catch_warnings():
        warnings.simplefilter("ignore")
        try:
            if family == "scalar":
                outs = block_diagonalize(h0 + g * h1, symbols=[g])
                H0b, H1b = [[h0]], [[h1]]
            elif family == "mask2":
                # scalar Hamiltonian of two modes with an operator-valued mask whose terms span several modes, e.g.
                # a*b + h.c. (eliminate pair creation, keep hopping) or a*sigma_+ + h.c.: only the terms whose tuple of
                # occupation shifts equals that of a mask term may be eliminated
                spin2 = isinstance(ops[1], pauli.SigmaMinus)
                cand = [(1, 1), (1, -1), (1, 0), (0, 1), (2, 0), (2, 1), (2, -1)] + ([] if spin2 else [(0, 2), (1, 2), (1, -2)])

                def mono(t):
                    out = sympy.Integer(1)
                    for o, p_ in zip(ops, t):
                        lo_, hi_ = secondq.gens_of(o)
                        out = out * (lo_**p_ if p_ > 0 else hi_ ** (-p_) if p_ < 0 else 1)
                    return out

                picks = [cand[int(q)] for q in rng.choice(len(cand), size=int(rng.choice([1, 1, 2])), replace=False)]
                m_expr = sympy.Add(*[mono(t) + Dagger(mono(t)) for t in picks])
                mask_shifts = {t for t in picks} | {tuple(-x for x in t) for t in picks}
                # the perturbation contains terms inside and outside the mask (and inside its per-mode closure)
                extra_t = [cand[int(q)] for q in rng.choice(len(cand), size=3, replace=False)]
                for t in set(picks[:1] + extra_t + [(picks[0][0], -picks[0][1])]):
                    if not any(t) or t not in cand and tuple(-x for x in t) not in cand:
                        continue
                    cf = secondq.R(int(rng.integers(1, 4)), int(rng.integers(2, 5)))
                    h1 = h1 + cf * (mono(t) + Dagger(mono(t)))
                    deg = max(deg, sum(abs(x) for x in t))
                outs = block_diagonalize([h0, h1], fully_diagonalize=m_expr)
                H0b, H1b = [[h0]], [[h1]]
                counters["mask2_noncartesian"] += int(len({t[0] for t in mask_shifts}) * len({t[1] for t in mask_shifts}) > len(mask_shifts))
                counters["mask2_spin"] += int(spin2)
            elif family == "scalar_matrix1":
                outs = block_diagonalize([sympy.Matrix([[h0]]), sympy.Matrix([[h1]])])
                H0b, H1b = [[h0]], [[h1]]
            elif family == "bigmatrix":
                # 6 or 7 matrix states in one fully diagonalised block, dense operator-valued coupling: the symbolic
                # matrix products have inner sums of 6-7 terms
                kdim = int(rng.choice([6, 7]))
                lo, hi = secondq.gens_of(ops[0])
                ds = [secondq.R(0)] + [secondq.R(int(rng.integers(1, 4)), int(rng.choice([5, 7, 11]))) + secondq.R(q, 2) for q in range(1, kdim)]
                H0b = [[(h0 + ds[i]) if i == j else 0 for j in range(kdim)] for i in range(kdim)]
                H1b = [[0] * kdim for _ in range(kdim)]
                for i in range(kdim):
                    for j in range(i + 1, kdim):
                        c = secondq.R(int(rng.integers(1, 4)), int(rng.integers(1, 4)))
                        H1b[i][j], H1b[j][i] = c * (lo + hi), c * (lo + hi)
                deg = 1
                max_order = 2
                outs = block_diagonalize([sympy.Matrix(H0b), sympy.Matrix(H1b)])
            elif family == "multiblock":
                # 3 matrix states in 2-3 blocks (layouts [0,1,2], [0,1,1], [0,0,1]), optionally one block fully diagonalised
                kdim = 3
                layout = [[0, 1, 2], [0, 1, 1], [0, 0, 1]][int(rng.integers(3))]
                deltas = [secondq.R(0), secondq.R(int(rng.integers(1, 4)), 7) + secondq.R(1, 3), -secondq.R(int(rng.integers(1, 4)), 5) - secondq.R(1, 2)]
                H0b = [[(h0 + deltas[i]) if i == j else 0 for j in range(3)] for i in range(3)]
                lo, hi = secondq.gens_of(ops[0])
                H1b = [[0] * 3 for _ in range(3)]
                for i in range(3):
                    for j in range(i + 1, 3):
                        c = secondq.R(int(rng.integers(1, 4)), int(rng.integers(1, 3)))
                        coup = c * [lo, lo + hi, hi][int(rng.integers(3))]
                        H1b[i][j], H1b[j][i] = coup, Dagger(coup)
                deg = 1
                nblk = max(layout) + 1
                multi_layout = layout
                cand_fd = [b for b in range(nblk) if layout.count(b) >= 2]
                multi_fd = (cand_fd[0],) if cand_fd and rng.random() < 0.6 else ()
                kw = dict(subspace_indices=layout)
                if multi_fd:
                    kw["fully_diagonalize"] = multi_fd
                outs = block_diagonalize([sympy.Matrix(H0b), sympy.Matrix(H1b)], **kw)
                counters[f"multiblock_layout_{''.join(map(str, layout))}"] += 1
                counters["multiblock_fd"] += int(bool(multi_fd))
            else:
                kdim = 2
                delta = secondq.R(int(rng.integers(1, 6)), 7) + secondq.R(1, 2)
                lo, hi = secondq.gens_of(ops[0])
                coup = [lo, lo + hi, hi * lo + 1, lo**2 if isinstance(ops[0], BosonOp) else lo][int(rng.integers(4))]
                if family == "matrix_fd" and isinstance(ops[0], BosonOp) and rng.random() < 0.7:
                    # identical operator-valued H_0 entries for the two matrix states, coupled only by a number-changing
                    # (non-Hermitian) entry a / a^dagger: the coupled levels |n, 0> and |n-1, 1> are still non-degenerate
                    delta = secondq.R(0)
                    coup = [lo, lo**2][int(rng.integers(2))]
                    counters["matrix_fd_identical_h0_entries"] += 1
                if spec.get("witness") == "F23":
                    nb_ = NumberOperator(ops[0])
                    h0, delta, coup = 2 * nb_ + nb_**2 + secondq.R(1, 2), secondq.R(-1), lo + hi
                H0b = [[h0 + delta / 2, 0], [0, h0 - delta / 2]]
                if family == "mask":
                    coup = lo + hi
                    mask_conserving = bool(rng.random() < 0.35)
                    if mask_conserving:
                        coup = lo + hi + secondq.R(int(rng.integers(1, 4)), 2)  # plus a number-conserving coupling
                diag1 = h1 if rng.random() < 0.5 and family != "mask" and not spec.get("witness") else 0
                H1b = [[diag1, coup], [Dagger(coup), -diag1 if diag1 != 0 else 0]]
                H0M, H1M = sympy.Matrix(H0b), sympy.Matrix(H1b)
                deg = max(deg if diag1 != 0 else 1, 2 if coup.is_Add and coup.has(sympy.Mul) or coup.is_Pow else 1)
                if family == "blocks":
                    outs = block_diagonalize([H0M, H1M], subspace_indices=[0, 1], symbols=[g] if False else None)
                elif family == "matrix_fd":
                    outs = block_diagonalize([H0M, H1M])
                else:
                    a = ops[0]
                    kk = sympy.Symbol("k", integer=True, nonnegative=True)
                    which = int(rng.integers(3))
                    if mask_conserving:
                        # the mask also names the number-conserving part of the coupling between the two matrix states
                        # (their levels differ by delta, so it can be eliminated)
                        which = 3
                        m01 = 1 + a + Dagger(a)
                        mask_shifts = {(0, 1): {0, 1, -1}, (1, 0): {0, 1, -1}}
                    elif which == 0:
                        m01 = a + Dagger(a)
                        mask_shifts = {(0, 1): {1, -1}, (1, 0): {1, -1}}
                    elif which == 1:
                        m01 = Dagger(a) ** kk  # rotating-wave-like: eliminate creation powers in the upper triangle
                        mask_shifts = {(0, 1): "nonpositive", (1, 0): "nonnegative"}
                    else:
                        m01 = a ** (kk + 2) + Dagger(a) ** (kk + 2)
                        mask_shifts = {(0, 1): "abs>=2", (1, 0): "abs>=2"}
                    mask = sympy.Matrix([[sympy.S.Zero, m01], [Dagger(m01), sympy.S.Zero]])
                    outs = block_diagonalize([H0M, H1M], fully_diagonalize=mask)
                    counters[f"mask_variant_{which}"] += 1
        except Exception as e:  # noqa: BLE001
            raise Violation(f"block_diagonalize raised {type(e).__name__}: {e} for H_0={H0b}, H_1={H1b}")

        orders = [(n,) for n in range(max_order + 1)]

        def evaluate(extra):
            M = secondq.make_model(ops, low, max_order, deg, extra=extra)
            D = M.D
            H0m = np.block([[M.expr(sympy.sympify(H0b[i][j])) if H0b[i][j] != 0 else np.zeros((D, D), complex) for j in range(kdim)] for i in range(kdim)])
            H1m = np.block([[M.expr(sympy.sympify(H1b[i][j])) if H1b[i][j] != 0 else np.zeros((D, D), complex) for j in range(kdim)] for i in range(kdim)])
            if not np.allclose(H0m, np.diag(np.diag(H0m))):
                raise Inconclusive("generated H_0 is not diagonal in the Fock basis")
            N = kdim * D
            mi = np.repeat(np.arange(kdim), D)
            fi = np.tile(np.arange(D), kdim)
            if family in ("scalar", "scalar_matrix1", "matrix_fd", "bigmatrix"):
                keep = np.eye(N, dtype=bool)
            elif family == "blocks":
                keep = mi[:, None] == mi[None, :]
            elif family == "multiblock":
                blk = np.array(multi_layout)[mi]
                keep = blk[:, None] == blk[None, :]
                for b in multi_fd:
                    inb = blk == b
                    sub = np.outer(inb, inb)
                    keep = np.where(sub, np.eye(N, dtype=bool), keep)  # fully diagonalised: only identical states kept
            elif family == "mask2":
                p2 = M.occ[fi][None, :, :2] - M.occ[fi][:, None, :2]  # p = m - n per mode for <n| . |m>
                keep = np.ones((N, N), bool)
                for t in mask_shifts:
                    keep &= ~((p2[:, :, 0] == t[0]) & (p2[:, :, 1] == t[1]))
            else:
                occ = M.occ[:, 0]
                keep = np.ones((N, N), bool)
                for (bi, bj), rule in mask_shifts.items():
                    rows = np.where(mi == bi)[0]
                    cols = np.where(mi == bj)[0]
                    # element <bi, n | . | bj, m>: an annihilation power p maps m -> n = m - p, i.e. p = m - n
                    p = occ[fi[cols]][None, :] - occ[fi[rows]][:, None]
                    if isinstance(rule, set):
                        el = np.isin(p, list(rule))
                    elif rule == "nonpositive":
                        el = p <= 0
                    elif rule == "nonnegative":
                        el = p >= 0
                    else:
                        el = np.abs(p) >= 2
                    keep[np.ix_(rows, cols)] = ~el
            ref = _reference(M, H0m, H1m, keep, orders)
            lowidx = secondq.low_states(M, low)
            sel = np.concatenate([b * D + lowidx for b in range(kdim)])
            return M, ref, sel, (H0m, H1m)

        M, ref, sel, mats = evaluate(0)
        M2, ref2, sel2, _ = evaluate(2)
        # double cut-off rule on the reference itself
        for n in orders:
            for q in (0, 1):
                A, B = ref[q][n][np.ix_(sel, sel)], ref2[q][n][np.ix_(sel2, sel2)]
                if not np.all(np.isfinite(A)) or not np.all(np.isfinite(B)) or np.abs(A - B).max(initial=0) > 1e-7 * max(1.0, np.abs(B).max(initial=0)):
                    raise Inconclusive(f"reference changes with the cut-off at order {n}: truncation not converged")
        D = M.D
        subs = {g: 1}

        def full(series, n):
            out = np.zeros((kdim * D, kdim * D), complex)
            nb = series.shape[0]
            if nb == 1:
                v = series[(0, 0) + n]
                d = secondq.denote(M, v, subs)
                if d is None:
                    return out
                if isinstance(d, str):
                    return np.eye(kdim * D, dtype=complex)
                return d
            layout_ = multi_layout if family == "multiblock" else list(range(nb))
            members = [[q for q, b in enumerate(layout_) if b == blk_] for blk_ in range(nb)]
            for i in range(nb):
                for j in range(nb):
                    d = secondq.denote(M, series[(i, j) + n], subs)
                    if d is None:
                        continue
                    rows = np.concatenate([np.arange(q * D, (q + 1) * D) for q in members[i]])
                    cols = np.concatenate([np.arange(q * D, (q + 1) * D) for q in members[j]])
                    out[np.ix_(rows, cols)] = np.eye(len(rows)) if isinstance(d, str) else d
            return out

        lib = []
        for s in range(3):
            try:
                lib.append({n: full(outs[s], n) for n in orders})
            except (Violation, Inconclusive):
                raise
            except RecursionError:
                raise Inconclusive("sympy/lambdify recursion limit while denoting a very large output expression")
            except Exception as e:  # noqa: BLE001
                raise Violation(f"evaluating {('H_tilde', 'U', 'U^dagger')[s]} raised {type(e).__name__}: {e} for H_0={H0b}, H_1={H1b}")
        known_f23 = None
        for q, name in ((0, "H_tilde"), (1, "U")):
            for n in orders:
                A = lib[q][n][np.ix_(sel, sel)]
                B = ref[q][n][np.ix_(sel, sel)]
                with np.errstate(all="ignore"):
                    diff = np.abs(A - B)
                err = float(diff.max(initial=0))
                counters["matrix_elements_compared"] += A.size
                tol_ = 1e-7 * max(1.0, float(np.abs(B).max(initial=0)))
                if not np.isfinite(err) or err > tol_:
                    msg = (
                        f"{name} at order {n}: matrix elements between low Fock states differ from the matrix block diagonalisation by {err:.3e}; "
                        f"family={family}, ops={ops}, H_0={H0b}, H_1={H1b}"
                    )
                    # classify: known finding F23 (a level resonant with the continuation of a level at a non-existent
                    # occupation: sympy cancels N / N in the operator product) or a new violation
                    phantom = _phantom_states(M, ops, H0b, kdim, max_order * max(1, deg))
                    if _attributable(~(diff <= tol_), sel, phantom, mats[1], n[0]):
                        known_f23 = known_f23 or msg
                        continue
                    raise Violation(msg)
        if known_f23 is not None:
            counters[f"family_{family}"] += 1
            return dict(verdict="known", finding="F23", detail=known_f23, sig=[family, [str(o) for o in ops], str(h1)[:60], str(H1b)[:40], max_order],
                        nontrivial=max_order >= 2, counters=dict(counters))
        # adjoint pairing and Hermiticity of the operator-valued outputs (C02 in the operator algebra), through the denotation
        for n in orders:
            Ud, Un, Hn = lib[2][n][np.ix_(sel, sel)], lib[1][n][np.ix_(sel, sel)], lib[0][n][np.ix_(sel, sel)]
            if np.abs(Ud - Un.conj().T).max(initial=0) > 1e-7 * max(1.0, float(np.abs(Un).max(initial=0))):
                raise Violation(f"U^dagger at order {n} is not the adjoint of U between low Fock states; family={family}, H_0={H0b}, H_1={H1b}")
            if np.abs(Hn - Hn.conj().T).max(initial=0) > 1e-7 * max(1.0, float(np.abs(Hn).max(initial=0))):
                raise Violation(f"H_tilde at order {n} is not Hermitian between low Fock states; family={family}, H_0={H0b}, H_1={H1b}")
            counters["adjoint_pairings_checked"] += 1
        # operator identities through the denotation, on the low columns
        Hm = {(0,): mats[0], (1,): mats[1]}
        Z = np.zeros((kdim * D, kdim * D), complex)
        for n in orders:
            UU = cprod([lib[2], lib[1]], n, Z)[:, sel]
            want = np.eye(kdim * D)[:, sel] if n == (0,) else 0
            if np.abs(UU - want).max(initial=0) > 1e-7 * max(1.0, max(np.abs(lib[1][m]).max() for m in orders)):
                raise Violation(f"operator identity U^dagger U = 1 fails at order {n} on low Fock states; family={family}, H_0={H0b}, H_1={H1b}")
            T = cprod([lib[2], Hm, lib[1]], n, Z)[np.ix_(sel, sel)]
            if np.abs(T - lib[0][n][np.ix_(sel, sel)]).max(initial=0) > 1e-7 * max(1.0, float(np.abs(T).max(initial=0))):
                raise Violation(f"operator identity U^dagger H U = H_tilde fails at order {n} between low Fock states; family={family}, H_0={H0b}, H_1={H1b}")
            counters["operator_identities_checked"] += 2
    counters[f"family_{family}"] += 1
    for o in ops:
        counters[f"stat_{type(o).__name__}"] += 1
    counters["pairing_terms"] += int(any(isinstance(o, type(ops[0])) for o in ops) and "c1*c2" in str(h1).replace(" ", ""))
    return dict(
        verdict="held",
        sig=[family, [str(o) for o in ops], str(h1)[:60], str(H1b)[:40], max_order],
        nontrivial=max_order >= 2,
        counters=dict(counters),
        sample=jsonable(dict(family=family, ops=[str(o) for o in ops], H_0=str(H0b), H_1=str(H1b), max_order=max_order, model_dim=kdim * D)),
    )


def finalize(c, tier, evaluations, distinct):
    reasons = []
    need = dict(matrix_elements_compared=2000, operator_identities_checked=200, family_scalar=20, family_blocks=8, family_matrix_fd=8, family_mask=8, mask_variant_3=2, family_mask2=8, mask2_noncartesian=4, family_bigmatrix=6, family_multiblock=10, multiblock_fd=3,
                stat_BosonOp=30, stat_FermionOp=15, stat_LadderOp=10, stat_SigmaMinus=10)
    for k, v in need.items():
        if c.get(k, 0) < v:
            reasons.append(f"{k} observed only {c.get(k, 0)} (< {v})")
    return reasons
