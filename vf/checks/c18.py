"""C18 - cauchy_dot_product is the multivariate Cauchy product."""
from __future__ import annotations

import itertools
from collections import Counter

import numpy as np

from vf import monitors
from vf.util import Violation, jsonable, rng_for, splits

ID = "C18"
LEVEL = "exploration"
RULE = (
    "random products of 2-4 block series: non-square block shapes and sizes, 1-3 infinite dimensions, random zero/one sentinel "
    "patterns, complex values, operator=mul with scalar elements, products declared hermitian (X^dagger X, W W with W Hermitian, "
    "X^dagger M X) evaluated with and without the flag; all elements up to a random order box are requested in random order and "
    "compared with the explicit sum over intermediate blocks and order splittings (R3). The factors' eval callbacks log every "
    "call together with the product_by_order call in progress (in-situ hook): a factor order component above the requested one, "
    "or a factor element requested while the complementary element is cached as zero, is a violation. Recurrences "
    "A_n := X_n + (A@B)_n with B_0 = 0 must terminate. Non-trivial: at least one element is a sum of >= 2 non-zero terms; "
    "distinct = (k, block counts, n_infinite, box, flags)"
)
ASSUMPTIONS = [
    "a sum that would add the `one` sentinel to another term raises TypeError by documented design of the sentinel; factors carrying `one` are therefore generated like the library's own U (identity at order zero, no other zeroth-order element); such TypeErrors would be counted, not judged",
    "float comparison |err| <= 1e-10 x sum of |terms|",
]
BUDGET = {"quick": dict(cases=2500, seconds=300), "thorough": dict(cases=40000, seconds=480)}
CASE_TIMEOUT = 60
MONITORS = {"product": True, "solvers": False}
MONITOR_VERDICTS = ("pending", "product")


def plan(tier, seed):
    rng = rng_for(18, seed)
    kinds = ["plain", "plain", "plain", "hermitian", "hermitian", "mul", "recurrence"]
    return [dict(kind=kinds[i % len(kinds)], case=int(rng.integers(0, 2**31))) for i in range(BUDGET[tier]["cases"])]


class Factor:
    """A lazily defined random block series whose eval logs its calls."""

    def __init__(self, rng, rows, cols, n_inf, square_sizes, allow_one, scalar, log, name, p_zero):
        from pymablock.series import BlockSeries, one, zero

        # elements of one factor of different dtypes (real at some orders, complex / single precision / integer at others)
        mixed_dtypes = bool(rng.random() < 0.3)
        self.mixed_dtypes = mixed_dtypes

        self.vals = {}
        self.rows, self.cols = rows, cols  # lists of block sizes
        self.log = log
        self.name = name
        has_one = allow_one and len(rows) == len(cols) and rows == cols and rng.random() < 0.5
        self.has_one = has_one

        def ev(*idx):
            i, j, *n = (int(x) for x in idx)
            n = tuple(n)
            key = (i, j, n)
            top = monitors.PRODUCT_STACK[-1] if monitors.PRODUCT_STACK else None
            flag = None
            if top is not None and top[1] is not top[2]:
                (s_, e_, *n_), first_, second_ = top
                rest = tuple(a - b for a, b in zip(n_, n))
                if first_ is self.series and i == s_ and all(r >= 0 for r in rest):
                    if second_._data.get((j, e_, *rest), None) is zero:
                        flag = f"{name}[{key}] requested although {second_.name}[{(j, e_) + rest}] is cached as zero"
                elif second_ is self.series and j == e_ and all(r >= 0 for r in rest):
                    if first_._data.get((s_, i, *rest), None) is zero:
                        flag = f"{name}[{key}] requested although {first_.name}[{(s_, i) + rest}] is cached as zero"
            log.append((name, key, flag, top))
            if key not in self.vals:
                if has_one and not any(n):
                    v = one if i == j else zero
                elif rng.random() < p_zero:
                    v = zero
                elif scalar:
                    v = complex(int(rng.integers(-4, 5)), int(rng.integers(-4, 5))) / 2
                    if v == 0:
                        v = zero
                else:
                    re_, im_ = rng.integers(-4, 5, size=(rows[i], cols[j])), rng.integers(-4, 5, size=(rows[i], cols[j]))
                    kind_ = int(rng.integers(6)) if mixed_dtypes else 0
                    if kind_ == 0:
                        v = (re_ + 1j * im_) / 2
                    elif kind_ == 1:
                        v = re_ / 2.0  # float64
                    elif kind_ == 2:
                        v = (re_ / 2.0).astype(np.float32)  # exactly representable
                    elif kind_ == 3:
                        v = re_.astype(np.int64)
                    elif kind_ == 4:
                        v = re_ / 3.0  # float64, not representable in single precision
                    else:
                        v = ((re_ + 1j * im_) / 2).astype(np.complex64)
                self.vals[key] = v
            return self.vals[key]

        self.series = BlockSeries(eval=ev, shape=(len(rows), len(cols)), n_infinite=n_inf, name=name)

    def dense(self, i, j, n):
        from pymablock.series import one, zero

        v = self.series[(i, j) + n]
        if v is zero:
            return None
        if v is one:
            return np.eye(self.rows[i], dtype=complex)
        return np.atleast_2d(np.asarray(v, dtype=complex))


def _expected(fs, i, j, n):
    k = len(fs)
    total, nterms, mag = None, 0, 0.0
    for mids in itertools.product(*[range(len(fs[f].cols)) for f in range(k - 1)]):
        chain = (i,) + mids + (j,)
        for sp in splits(n, k):
            t = None
            for f in range(k):
                v = fs[f].dense(chain[f], chain[f + 1], sp[f])
                if v is None:
                    t = None
                    break
                t = v if t is None else t @ v
            if t is None:
                continue
            nterms += 1
            mag += float(np.abs(t).sum())
            total = t if total is None else total + t
    return total, nterms, mag


def _check_logs(log, counters):
    """Offline checker of the factor evaluation log (2-factor product calls only see their own operands)."""
    from pymablock.series import zero

    for name, (i, j, m), top_desc, top in log:
        if top is None:
            counters["factor_evals_outside_product"] += 1
            continue
        (s, e, *n), first, second = top
        n = tuple(n)
        counters["factor_evals_logged"] += 1
        if top_desc:
            raise Violation("termination rule broken: " + top_desc)
        if any(a > b for a, b in zip(m, n)):
            raise Violation(f"factor {name} evaluated at order {m} while computing product order {n}")
    return


def run_case(spec):
    from pymablock.series import BlockSeries, cauchy_dot_product, one, zero
    from operator import mul
    from sympy.physics.quantum import Dagger

    rng = rng_for(18, spec["case"])
    kind = spec["kind"]
    counters = Counter()
    log = []
    n_inf = int(rng.integers(1, 4))
    box = tuple(int(x) for x in rng.integers(0, 3 if n_inf < 3 else 2, size=n_inf))
    if not any(box):
        box = (1,) + box[1:]
    if n_inf == 2 and rng.random() < 0.2:
        # deep two-parameter boxes (total order >= 5): splittings for which "larger total order" and "more expensive
        # factor" differ, e.g. (4, 1) = (3, 0) + (1, 1)
        box = [(4, 1), (1, 4), (3, 2), (2, 3)][int(rng.integers(4))]
        counters["deep_two_parameter_box"] += 1
    orders = list(itertools.product(*[range(b + 1) for b in box]))
    p_zero = float(rng.choice([0.1, 0.3, 0.6]))
    sample = dict(kind=kind, n_inf=n_inf, box=box, p_zero=p_zero)
    hermitian_flag = False
    if kind in ("plain", "mul"):
        k = int(rng.integers(2, 5))
        scalar = kind == "mul"
        square = rng.random() < 0.4
        nblocks = [int(rng.integers(1, 4)) for _ in range(k + 1)]
        sizes = [[1 if scalar else int(rng.integers(1, 3)) for _ in range(nb)] for nb in nblocks]
        if square:
            nblocks = [nblocks[0]] * (k + 1)
            sizes = [sizes[0]] * (k + 1)
        fs = [Factor(rng, sizes[f], sizes[f + 1], n_inf, square, not scalar, scalar, log, f"F{f}", p_zero) for f in range(k)]
        P = cauchy_dot_product(*[f.series for f in fs], operator=mul if scalar else None)
        variants = [("plain", P, fs)]
        sample.update(k=k, blocks=nblocks, sizes=sizes)
        sig = [kind, k, nblocks, n_inf, list(box), square]
    elif kind == "hermitian":
        # X^dagger @ X, W @ W (W Hermitian) or X^dagger @ M @ X (M Hermitian), with and without the flag
        mode = int(rng.integers(0, 3))
        nb = int(rng.integers(1, 4))
        sz = [int(rng.integers(1, 3)) for _ in range(nb)]
        nb2 = int(rng.integers(1, 4))
        sz2 = [int(rng.integers(1, 3)) for _ in range(nb2)]
        # like the library's own U = one + U': square factors may carry the `one` sentinel at order zero
        with_one = bool(rng.random() < 0.5)
        if with_one:
            nb2, sz2 = nb, list(sz)
        X = Factor(rng, sz2, sz, n_inf, False, with_one, False, log, "X", p_zero)
        counters["hermitian_with_one"] += int(X.has_one)

        def adj_series(F, name):
            def ev(*idx):
                i, j, *n = idx
                v = F.series[(j, i, *n)]
                return v if v is zero or v is one else np.asarray(v).conj().T
            A = Factor.__new__(Factor)
            A.rows, A.cols, A.series = F.cols, F.rows, BlockSeries(eval=ev, shape=(len(F.cols), len(F.rows)), n_infinite=n_inf, name=name)
            A.dense = Factor.dense.__get__(A)
            return A

        def herm_series(name, sizes_):
            base = Factor(rng, sizes_, sizes_, n_inf, True, with_one, False, log, name + "_raw", p_zero)
            counters["hermitian_with_one"] += int(base.has_one)

            def ev(*idx):
                i, j, *n = idx
                a = base.series[(i, j, *n)]
                b = base.series[(j, i, *n)]
                if a is one or b is one:  # only at order zero on the diagonal, where both are `one`
                    return one
                a = None if a is zero else a
                b = None if b is zero else np.asarray(b).conj().T
                if a is None and b is None:
                    return zero
                return (0 if a is None else a) + (0 if b is None else b)
            W = Factor.__new__(Factor)
            W.rows, W.cols, W.series = sizes_, sizes_, BlockSeries(eval=ev, shape=(len(sizes_),) * 2, n_infinite=n_inf, name=name)
            W.dense = Factor.dense.__get__(W)
            return W

        if mode == 0:
            fs = [adj_series(X, "Xd"), X]
        elif mode == 1:
            W = herm_series("W", sz)
            fs = [W, W]
        else:
            M = herm_series("M", sz2)
            fs = [adj_series(X, "Xd"), M, X]
        P_h = cauchy_dot_product(*[f.series for f in fs], hermitian=True)
        P_n = cauchy_dot_product(*[f.series for f in fs], hermitian=False)
        variants = [("hermitian=True", P_h, fs), ("hermitian=False", P_n, fs)]
        hermitian_flag = True
        sample.update(mode=mode, sizes=sz, sizes2=sz2)
        sig = [kind, mode, nb, nb2, n_inf, list(box)]
        counters[f"hermitian_mode{mode}"] += 1
    else:  # recurrence: A_n = X_n + (A @ B)_n with B_0 = 0 must terminate and equal the explicit recursion
        nb = int(rng.integers(1, 3))
        sz = [int(rng.integers(1, 3)) for _ in range(nb)]
        X = Factor(rng, sz, sz, n_inf, False, False, False, log, "X", p_zero)
        Bf = Factor(rng, sz, sz, n_inf, False, False, False, log, "B", p_zero)
        z = (0,) * n_inf
        for i in range(nb):
            for j in range(nb):
                Bf.vals[(i, j, z)] = zero
        B = BlockSeries(eval=Bf.series.eval, data={(i, j) + z: zero for i in range(nb) for j in range(nb)}, shape=(nb, nb), n_infinite=n_inf, name="B")
        Bf.series = B
        A = BlockSeries(shape=(nb, nb), n_infinite=n_inf, name="A")
        left = bool(rng.integers(0, 2))
        AB = cauchy_dot_product(A, B) if left else cauchy_dot_product(B, A)

        def a_eval(*idx):
            x, p = X.series[idx], AB[idx]
            if x is zero:
                return p
            if p is zero:
                return x
            return x + p

        A.eval = a_eval
        # explicit recursion
        ref = {}
        N = sum(sz)
        off = np.concatenate([[0], np.cumsum(sz)])

        def full(F, n):
            out = np.zeros((N, N), complex)
            for i in range(nb):
                for j in range(nb):
                    d = F.dense(i, j, n)
                    if d is not None:
                        out[off[i]:off[i + 1], off[j]:off[j + 1]] = d
            return out

        for n in sorted(orders, key=lambda t: (sum(t), t)):
            acc = full(X, n)
            for a, b in splits(n, 2):
                if b == z or a not in ref:
                    continue
                acc = acc + (ref[a] @ full(Bf, b) if left else full(Bf, b) @ ref[a])
            ref[n] = acc
        reqs = [(i, j, n) for i in range(nb) for j in range(nb) for n in orders]
        for q in rng.permutation(len(reqs)):
            i, j, n = reqs[q]
            try:
                got = A[(i, j) + n]
            except RuntimeError as e:
                raise Violation(f"recurrence A = X + {'A@B' if left else 'B@A'} with B_0 = 0 did not terminate at {(i, j, n)}: {e}")
            g = np.zeros((sz[i], sz[j]), complex) if got is zero else np.asarray(got, complex)
            want = ref[n][off[i]:off[i + 1], off[j]:off[j + 1]]
            if np.max(np.abs(g - want), initial=0) > 1e-9 * max(1.0, float(np.abs(want).max(initial=0))):
                raise Violation(f"recurrence element {(i, j, n)} differs from the explicit recursion")
            counters["recurrence_elements"] += 1
        _check_logs(log, counters)
        return dict(verdict="held", sig=["recurrence", nb, n_inf, list(box), left], nontrivial=True, counters=dict(counters), sample=jsonable(sample))

    nontrivial = False
    values = {}
    for label, P, fs in variants:
        rows, cols = fs[0].rows, fs[-1].cols
        reqs = [(i, j, n) for i in range(len(rows)) for j in range(len(cols)) for n in orders]
        for q in rng.permutation(len(reqs)):
            i, j, n = reqs[q]
            try:
                got = P[(i, j) + n]
            except Exception as e:  # noqa: BLE001
                msgs, cur = [], e
                while cur is not None:
                    msgs.append(str(cur))
                    cur = cur.__cause__
                if any("One" in m for m in msgs):
                    counters["one_plus_term_TypeError"] += 1
                    continue
                raise Violation(f"{label}: product element {(i, j, n)} raised {type(e).__name__}: {msgs}")
            exp, nterms, mag = _expected(fs, i, j, n)
            counters["elements_compared"] += 1
            if nterms >= 2:
                nontrivial = True
                counters["multi_term_elements"] += 1
            if exp is None:
                if got is not zero and not (np.ndim(got) == 0 and got == 0):
                    raise Violation(f"{label}: element {(i, j, n)} should be absent (zero) but is {type(got).__name__}")
                continue
            if got is zero:
                if np.abs(exp).max() > 1e-10 * max(1.0, mag):
                    raise Violation(f"{label}: element {(i, j, n)} is zero but the Cauchy sum is not")
                continue
            g = np.eye(rows[i], dtype=complex) if got is one else np.atleast_2d(np.asarray(got, dtype=complex))
            if got is one:
                counters["one_results"] += 1
            if g.shape != exp.shape:
                raise Violation(f"{label}: element {(i, j, n)} has shape {g.shape}, expected {exp.shape}")
            err = float(np.abs(g - exp).max(initial=0))
            if err > 1e-10 * max(1.0, mag):
                raise Violation(f"{label}: element {(i, j, n)} differs from the Cauchy sum by {err:.3e} ({nterms} terms)")
            values[(label, i, j, n)] = g
    if hermitian_flag:
        for (label, i, j, n), g in values.items():
            if label == "hermitian=True" and ("hermitian=False", i, j, n) in values:
                h = values[("hermitian=False", i, j, n)]
                if np.abs(g - h).max(initial=0) > 1e-10 * max(1.0, float(np.abs(h).max(initial=0))):
                    raise Violation(f"hermitian=True changed element {(i, j, n)} of a Hermitian product")
                counters["hermitian_flag_pairs"] += 1
    _check_logs(log, counters)
    return dict(verdict="held", sig=sig, nontrivial=nontrivial, counters=dict(counters), sample=jsonable(sample))


def finalize(c, tier, evaluations, distinct):
    reasons = []
    need = dict(elements_compared=5000, multi_term_elements=1000, hermitian_flag_pairs=500, recurrence_elements=500,
                factor_evals_logged=5000, product_checked=1000, one_results=20, hermitian_with_one=20, hermitian_mode0=20, hermitian_mode1=20, hermitian_mode2=20)
    for k, v in need.items():
        if c.get(k, 0) < v:
            reasons.append(f"{k} observed only {c.get(k, 0)} times (< {v})")
    return reasons
