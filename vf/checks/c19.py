"""C19 - BlockSeries indexing follows numpy semantics with exactly-once evaluation."""
from __future__ import annotations

import itertools
from collections import Counter

import numpy as np

from vf.util import Violation, jsonable, rng_for

ID = "C19"
LEVEL = "exploration"
RULE = (
    "random series shapes (0-3 finite dims of size 1-3, 0-2 infinite dims) whose elements are unique tokens (every 4th absent = zero); "
    "random index expressions from ints (negative allowed on finite dims), lists, forward slices (step >= 1) and mixtures, "
    "finite-only indices (views, then indexed further), wrong index counts, infinite/negative orders; the same expression is "
    "applied by numpy to the dense object array of tokens (the reference model). Each request sequence repeats expressions; "
    "the eval counter per element must stay <= 1. Self-reference (direct, mutual through 2-3 series, through a view) must raise "
    "RuntimeError after O(#series) evaluations. thorough additionally enumerates a small grammar of index atoms exhaustively for "
    "shapes <= (2,3) x 2 orders. Non-trivial: expression with >= 2 different atom kinds, a view, or an error class; distinct = "
    "(shape, n_infinite, atom-kind tuple)"
)
ASSUMPTIONS = [
    "numpy's own indexing of an object ndarray is the reference semantics",
    "a quarter of the series are defined recursively (eval indexes its own series: right neighbour, previous order, other row), as the library's generated evals do",
    "grammar: int | list[int] | slice(start, stop, step>=1); booleans, None, Ellipsis and negative steps are outside the stated domain",
    "for infinite dimensions a negative integer / list entry / slice bound or an open-ended slice must raise IndexError (property text)",
]
BUDGET = {"quick": dict(cases=12000, seconds=300), "thorough": dict(cases=160000, seconds=420)}
CASE_TIMEOUT = 60
MONITORS = {"product": False, "solvers": False}
MONITOR_VERDICTS = ("pending",)
MAXO = 4


def _atom(rng, dim, finite):
    r = rng.random()
    if r < 0.35:
        if finite:
            return "int", int(rng.integers(-dim, dim + (1 if rng.random() < 0.05 else 0)))
        return "int", int(rng.integers(0, dim))
    if r < 0.6:
        k = int(rng.integers(1, 4)) if rng.random() > 0.08 else 0  # now and then an empty list (numpy: empty result)
        vals = rng.integers(-dim, dim, size=k) if finite else rng.integers(0, dim, size=k)
        return "list", [int(x) for x in vals]
    a, b = sorted(int(x) for x in rng.integers(0, dim + 1, size=2))
    st = [None, 1, 2, 3][int(rng.integers(4))]
    start = None if rng.random() < 0.3 else a
    if finite and rng.random() < 0.3:
        return "slice", [start, None, st]
    return "slice", [start, b, st]


def _bad_order_atom(rng):
    k = int(rng.integers(5))
    if k == 0:
        return "negint", -int(rng.integers(1, 4))
    if k == 1:
        return "neglist", [0, -int(rng.integers(1, 3))]
    if k == 2:
        return "openslice", [int(rng.integers(0, 2)), None, None]
    if k == 3:
        return "negstop", [None, -int(rng.integers(1, 3)), None]
    return "negstart", [-int(rng.integers(1, 3)), 2, None]


def plan(tier, seed):
    rng = rng_for(19, seed, 3)
    specs = []
    n = BUDGET[tier]["cases"]
    n_rand = n if tier == "quick" else n - 6000
    for i in range(n_rand):
        kind = ["index", "index", "recursive", "view", "bad", "selfref", "index", "recursive"][i % 8]
        shape = [int(x) for x in rng.integers(1, 4, size=int(rng.integers(0, 4)))]
        n_inf = int(rng.integers(0, 3))
        if kind in ("view", "bad", "selfref") and n_inf == 0:
            n_inf = 1
        if kind == "recursive":
            shape = [int(x) for x in rng.integers(1, 4, size=2)]
            n_inf = int(rng.integers(1, 3))
        if kind in ("view", "selfref") and not shape:
            shape = [2, 2]
        if not shape and not n_inf:
            n_inf = 1
        spec = dict(kind=kind, shape=shape, n_inf=n_inf, case=int(rng.integers(0, 2**31)))
        specs.append(spec)
    if tier == "thorough":
        # exhaustive small grammar: shape (2,3), 1 and 2 infinite dims, all triples of atoms
        fin2, fin3, inf = _tables()
        combos = list(itertools.product(range(len(fin2)), range(len(fin3)), range(len(inf))))
        chunk = 40
        for ninf in (1, 2):
            for c in range(0, len(combos), chunk):
                specs.append(dict(kind="exhaustive", shape=[2, 3], n_inf=ninf, combos=combos[c:c + chunk], case=ninf))
    return specs


def _to_index(atom):
    kind, v = atom
    if kind in ("slice", "openslice", "negstop", "negstart"):
        return slice(*v)
    return v


def _mk(shape, n_inf):
    from pymablock.series import BlockSeries, zero

    calls = Counter()

    def ev(*idx):
        idx = tuple(int(i) for i in idx)
        calls[idx] += 1
        if sum(idx) % 4 == 0:
            return zero
        if sum(idx) % 7 == 3:
            return None  # any object is a legitimate element value, the Python object None included
        return ("v",) + idx

    S = BlockSeries(eval=ev, shape=tuple(shape), n_infinite=n_inf)
    box = tuple(shape) + (MAXO + 1,) * n_inf
    dense = np.empty(box, dtype=object)
    for idx in itertools.product(*[range(b) for b in box]):
        dense[idx] = None if sum(idx) % 4 == 0 else NONE_VALUE if sum(idx) % 7 == 3 else ("v",) + idx
    return S, dense, calls


def _mk_recursive(shape, n_inf):
    """A well-founded recursive definition: element (i, j, n...) is built from the element to its
    right in the same row (later in C order), from the previous order and from a slice of the
    same series - like the generated evals of the library, which index their own series."""
    from pymablock.series import BlockSeries, zero

    calls = Counter()
    holder = {}

    def key(x):
        return 0 if x is None else x

    def rule(get, idx):
        i, j, *n = idx
        if sum(idx) % 5 == 0:
            return None
        parts = []
        if j + 1 < shape[1]:
            parts.append(get((i, j + 1, *n)))
        if n[0] > 0:
            parts.append(get((i, j, n[0] - 1, *n[1:])))
        if n[-1] > 1:
            parts.append(get(((i + 1) % shape[0], j, *n[:-1], n[-1] - 2)))
        return ("r", idx, tuple(parts))

    def ev(*idx):
        idx = tuple(int(v) for v in idx)
        calls[idx] += 1
        S = holder["S"]

        def get(k):
            v = S[k]
            return None if v is zero else v

        out = rule(get, idx)
        return zero if out is None else out

    S = BlockSeries(eval=ev, shape=tuple(shape), n_infinite=n_inf, name="R")
    holder["S"] = S
    box = tuple(shape) + (MAXO + 1,) * n_inf
    dense = np.empty(box, dtype=object)
    memo = {}

    def ref(k):
        if k not in memo:
            memo[k] = rule(ref, k)
        return memo[k]

    for idx in itertools.product(*[range(b) for b in box]):
        dense[idx] = ref(idx)
    return S, dense, calls


NONE_VALUE = "<the Python object None as an element value>"


def _norm(x, lib=False):
    """`lib`: x comes from the library, where None is a genuine element value (the reference array writes it as
    NONE_VALUE and uses None for absent elements)."""
    from pymablock.series import zero

    nv = (lambda v: NONE_VALUE if v is None else v) if lib else (lambda v: v)
    if isinstance(x, tuple) and x and x[0] == "EXC":
        return x
    if isinstance(x, np.ma.MaskedArray):
        return ("arr", x.shape, tuple(None if m else nv(v) for v, m in zip(x.data.flat, np.ma.getmaskarray(x).flat)))
    if isinstance(x, np.ndarray):
        return ("arr", x.shape, tuple(nv(v) for v in x.flat))
    if x is zero:
        return None
    return nv(x)


def _apply(obj, item):
    try:
        return obj[item]
    except IndexError:
        return ("EXC", "IndexError")
    except Exception as e:  # noqa: BLE001
        return ("EXC", type(e).__name__)


def _compare(S, dense, item, counters, what):
    exp = _apply(dense, item)
    n_items = len(item) if isinstance(item, tuple) else 1
    if n_items != dense.ndim:
        exp = ("EXC", "IndexError")  # the series needs one index per dimension (or finite-only: a view)
        counters["wrong_count"] += 1
    got = _apply(S, item)
    counters["expressions"] += 1
    if _norm(exp) != _norm(got, lib=True):
        raise Violation(f"{what}: S[{item}] = {_norm(got, lib=True)} but numpy gives {_norm(exp)}")
    if isinstance(exp, tuple) and exp and exp[0] == "EXC":
        counters["index_errors_agreed"] += 1
    elif isinstance(got, np.ma.MaskedArray) and np.ma.getmaskarray(got).any():
        counters["masked_results"] += 1


def run_case(spec):
    from pymablock.series import BlockSeries, zero

    rng = rng_for(19, spec["case"], len(spec["shape"]), spec["n_inf"])
    shape, n_inf = spec["shape"], spec["n_inf"]
    counters = Counter()
    kinds = []
    kind = spec["kind"]
    S, dense, calls = _mk(shape, n_inf)
    sample = None
    if kind == "index":
        items = []
        for rep in range(5):
            atoms = [_atom(rng, d, True) for d in shape] + [_atom(rng, MAXO + 1, False) for _ in range(n_inf)]
            item = tuple(_to_index(a) for a in atoms)
            if rng.random() < 0.05 and len(item) > 1:
                item = item[:-1] if n_inf == 0 or len(shape) == 0 else item + (0,)
                atoms = atoms + [("wrongcount", 0)]
            if len(item) == len(shape) and n_inf:
                continue  # that is a view: handled by kind == "view"
            items.append(item)
            kinds.append(tuple(a[0] for a in atoms))
        for item in items + items[:2]:  # repeats
            _compare(S, dense, item if len(item) != 1 else item[0] if rng.random() < 0.5 else item, counters, "index")
        sample = dict(shape=shape, n_inf=n_inf, items=[str(i) for i in items[:3]])
    elif kind == "view":
        for rep in range(3):
            atoms = [_atom(rng, d, True) for d in shape]
            fin = tuple(_to_index(a) for a in atoms)
            try:
                sub = dense[fin]
            except IndexError:
                continue
            try:
                view = S[fin]
            except Exception as e:  # noqa: BLE001
                raise Violation(f"finite-only index {fin} raised {type(e).__name__}: {e}")
            if not isinstance(view, BlockSeries):
                raise Violation(f"finite-only index {fin} did not return a BlockSeries view")
            counters["views"] += 1
            vshape = sub.shape[: sub.ndim - n_inf]
            if tuple(view.shape) != tuple(vshape) or view.n_infinite != n_inf:
                raise Violation(f"view S[{fin}] has shape {view.shape}, numpy gives {vshape}")
            if 0 in vshape:
                counters["empty_views"] += 1
                continue
            for rep2 in range(3):
                atoms2 = [_atom(rng, d, True) for d in vshape] + [_atom(rng, MAXO + 1, False) for _ in range(n_inf)]
                item = tuple(_to_index(a) for a in atoms2)
                _compare(view, sub, item, counters, f"view S[{fin}]")
                kinds.append(("view",) + tuple(a[0] for a in atoms + atoms2))
            sample = dict(shape=shape, n_inf=n_inf, view=str(fin))
    elif kind == "bad":
        for rep in range(4):
            atoms = [_atom(rng, d, True) for d in shape] + [_atom(rng, MAXO + 1, False) for _ in range(n_inf)]
            pos = len(shape) + int(rng.integers(0, n_inf))
            atoms[pos] = _bad_order_atom(rng)
            item = tuple(_to_index(a) for a in atoms)
            # a finite-dimension error (out-of-range int) is an IndexError as well
            try:
                S[item]
            except IndexError:
                counters["bad_order_rejected"] += 1
            except Exception as e:  # noqa: BLE001
                raise Violation(f"S[{item}] raised {type(e).__name__} ({e}) instead of IndexError")
            else:
                raise Violation(f"S[{item}] (infinite or negative order) did not raise IndexError")
            kinds.append(tuple(a[0] for a in atoms))
        sample = dict(shape=shape, n_inf=n_inf, bad=str(item))
    elif kind == "recursive":
        S, dense, calls = _mk_recursive(shape, n_inf)
        for rep in range(4):
            atoms = [_atom(rng, d, True) for d in shape] + [_atom(rng, MAXO + 1, False) for _ in range(n_inf)]
            item = tuple(_to_index(a) for a in atoms)
            _compare(S, dense, item, counters, "recursive series")
            kinds.append(("recursive",) + tuple(a[0] for a in atoms))
            counters["recursive_expressions"] += 1
        sample = dict(shape=shape, n_inf=n_inf, recursive=True, item=str(item))
    elif kind == "selfref":
        _selfref(rng, shape, n_inf, counters)
        kinds.append(("selfref", int(rng.integers(0, 50))))
        sample = dict(shape=shape, n_inf=n_inf, selfref=True)
    elif kind == "exhaustive":
        tabs = _tables()
        for a, b, c in spec["combos"]:
            item = (tabs[0][a], tabs[1][b]) + (tabs[2][c],) * 1
            if n_inf == 2:
                item = item + (tabs[2][(c * 3 + 1) % len(tabs[2])],)
            _compare(S, dense, item, counters, "exhaustive")
        counters["exhaustive_expressions"] += len(spec["combos"])
        kinds.append(("exhaustive", n_inf, spec["combos"][0][0], spec["combos"][0][1], spec["combos"][0][2]))
        sample = dict(exhaustive=len(spec["combos"]))
    multi = [k for k, v in calls.items() if v > 1]
    counters["elements_evaluated"] += len(calls)
    if multi:
        raise Violation(f"element {multi[0]} evaluated {calls[multi[0]]} times while cached")
    nontrivial = any(len(set(k)) >= 2 or "view" in k or "selfref" in k or "exhaustive" in k for k in kinds) or kind == "bad"
    sig = [shape, n_inf, sorted(set(str(k) for k in kinds))[:3]]
    return dict(verdict="held", sig=sig, nontrivial=bool(nontrivial), counters=dict(counters), sample=jsonable(sample))


def _tables():
    fin2 = [0, 1, -1, [0, 1], [1, 0], [-1], slice(None), slice(0, 1), slice(1, None), slice(None, None, 2)]
    fin3 = [0, 2, -1, -3, [0, 2], [2, 2], slice(None), slice(1, 3), slice(None, 2), slice(None, None, 2)]
    inf = [0, 2, [0, 1], [2, 0], slice(None, 3), slice(1, 3), slice(0, 4, 2), slice(0, 0)]
    return fin2, fin3, inf


def _selfref(rng, shape, n_inf, counters):
    """Self-referential definitions must raise RuntimeError after O(#series) evaluations."""
    from pymablock.series import BlockSeries

    mode = int(rng.integers(0, 4))
    nser = [1, 2, 3, 1][mode]
    evals = Counter()
    series = []
    target = tuple(int(rng.integers(0, d)) for d in shape) + tuple(int(rng.integers(0, 3)) for _ in range(n_inf))

    def make(k):
        def ev(*idx):
            evals[k] += 1
            idx = tuple(int(i) for i in idx)
            if idx != target:
                return ("ok", k) + idx
            nxt = series[(k + 1) % nser]
            if mode == 3:  # through a view
                fin, inf = idx[: len(shape)], idx[len(shape):]
                return nxt[fin][inf]
            return nxt[idx]

        return ev

    for k in range(nser):
        series.append(BlockSeries(eval=make(k), shape=tuple(shape), n_infinite=n_inf, name=f"S{k}"))
    try:
        series[0][target]
    except RecursionError as e:
        raise Violation(f"self-reference (mode {mode}) hit the interpreter recursion limit: {e}")
    except RuntimeError as e:
        chain, cur = [], e
        while cur is not None:
            chain.append(str(cur))
            cur = cur.__cause__
        if any(isinstance(c, RecursionError) for c in _chain(e)):
            raise Violation(f"self-reference (mode {mode}) recursed to the interpreter limit before raising")
        if not any("recursion" in c.lower() for c in chain):
            raise Violation(f"self-reference raised RuntimeError without a recursion diagnosis: {chain}")
    except Exception as e:  # noqa: BLE001
        raise Violation(f"self-reference raised {type(e).__name__} instead of RuntimeError")
    else:
        raise Violation(f"self-referential definition (mode {mode}) returned a value")
    total = sum(evals.values())
    counters[f"selfref_mode{mode}"] += 1
    if total > 4 * nser + 4:
        raise Violation(f"self-reference detected only after {total} evaluations (bounded progress: <= {4 * nser + 4})")
    # the series stay usable: an unrelated element evaluates, and the faulty one raises again
    other = tuple((t + 1) % d for t, d in zip(target[: len(shape)], shape)) + tuple(t + 1 for t in target[len(shape):])
    if other != target:
        v = series[0][other]
        if not (isinstance(v, tuple) and v[0] == "ok"):
            raise Violation(f"after a detected self-reference another element returned {v!r}")
    try:
        series[0][target]
    except RuntimeError:
        counters["selfref_raises_again"] += 1
    else:
        raise Violation("second request of a self-referential element returned a value")


def _chain(e):
    out = []
    while e is not None:
        out.append(e)
        e = e.__cause__
    return out


def finalize(c, tier, evaluations, distinct):
    reasons = []
    need = dict(recursive_expressions=500, expressions=2000, views=200, bad_order_rejected=300, index_errors_agreed=20, masked_results=200,
                selfref_mode0=10, selfref_mode1=10, selfref_mode2=10, selfref_mode3=10)
    for k, v in need.items():
        if c.get(k, 0) < v:
            reasons.append(f"{k} observed only {c.get(k, 0)} times (< {v})")
    if tier == "thorough" and c.get("exhaustive_expressions", 0) < 1600:
        reasons.append("exhaustive grammar not completed")
    return reasons


def extra_coverage(c, evaluations):
    return {"exhaustive": False, "exhaustive_part": "thorough tier enumerates all 10x10x8 atom triples for shape (2,3) with 1 and 2 infinite dims"}
