"""C16 - Sylvester and Green's-function solvers return solutions of their equations."""
from __future__ import annotations

import warnings
from collections import Counter

import numpy as np
import sympy
from scipy import sparse

from vf import implicit, matprob, monitors
from vf.util import Violation, jsonable, rng_for

ID = "C16"
LEVEL = "exploration"
RULE = (
    "residual contracts on the real solver closures, by direct hostile calls and in situ. diag: solve_sylvester_diagonal with dense / "
    "sparse / sympy right-hand sides, complex energies, degenerate pairs (incl. explicitly stored zeros and rounding noise at "
    "degenerate positions of sparse Y), scalar `eigs` of zero blocks, all block-index orientations, dtype mixtures: E_i V_ij - V_ij E_j "
    "= Y_ij where |E_i - E_j| > atol and V_ij = 0 elsewhere, finite. direct: solve_sylvester_direct on random (bi)orthogonal problems: "
    "right-implicit rows E_a V_a - V_a H_0 = Y_a P, V P = V; left-implicit columns H_0 V - V E_b = P Y, P V = V (nonhermitian=True); "
    "degenerate explicit levels (grouped kernels), real H_0 with complex right-hand sides, both default and explicit options. kpm: "
    "solve_sylvester_KPM residual <= 10 x requested accuracy x bandwidth unless a convergence RuntimeWarning was issued; with and "
    "without auxiliary vectors. greens: direct_greens_function (E - H) x = P v and P x = x for simple and degenerate kernels, "
    "Hermitian and non-normal H with dual kernels. bd: whole block_diagonalize runs (dense, sparse, sympy, implicit) with the same "
    "monitors in situ on every solver call. 2q: second-quantised solver residual M(H_ii) M(X) - M(X) M(H_jj) = M(Y) in the Fock-space "
    "matrix model on safe columns. Non-trivial: a right-hand side with >= 2 non-zero entries and at least one non-degenerate pair; "
    "distinct = (kind, branch, shapes, spectrum class)"
)
ASSUMPTIONS = [
    "dense residuals computed by numpy are the reference; operators are densified (dimension <= 64)",
    "KPM bound: the solver's accuracy is defined on the rescaled problem, so the residual in original units is bounded by atol x half bandwidth; a factor 10 of slack is allowed",
]
BUDGET = {"quick": dict(cases=1500, seconds=300), "thorough": dict(cases=24000, seconds=540)}
CASE_TIMEOUT = 120
MONITORS = {"product": False, "solvers": True}
MONITOR_VERDICTS = ("sylvester", "greens", "nonfinite", "fp", "kpm_bounds")
KINDS = ["diag", "diag", "diag", "direct", "direct", "greens", "kpm", "bd", "bd_implicit", "2q"]


def plan(tier, seed):
    rng = rng_for(16, seed)
    return [dict(kind=KINDS[i % len(KINDS)], case=int(rng.integers(0, 2**31))) for i in range(BUDGET[tier]["cases"])]


# ---------------------------------------------------------------------------------------------
def _diag_case(rng, counters):
    import pymablock.block_diagonalization as bd
    from pymablock.series import zero

    nb = int(rng.integers(1, 4))
    sizes = [int(rng.integers(1, 5)) for _ in range(nb)]
    vtype = str(rng.choice(["dense", "sparse", "sympy"]))
    cplxE = bool(rng.random() < 0.3)
    eigs = []
    pool = list(rng.permutation(np.arange(-12, 13)))
    for b, s in enumerate(sizes):
        if rng.random() < 0.15:
            eigs.append(np.array(sympy.S.Zero, dtype=object) if vtype == "sympy" else np.array(0))  # zero H_0 block: scalar
            continue
        lv = []
        for k in range(s):
            if lv and rng.random() < 0.35:
                lv.append(lv[int(rng.integers(0, len(lv)))])
            else:
                lv.append(int(pool.pop()))
        if vtype == "sympy":
            eigs.append(np.array([sympy.Rational(v, 2) + (sympy.I * sympy.Rational(v % 3, 2) if cplxE else 0) for v in lv], dtype=object))
        else:
            e = np.array(lv, float) / 2
            # levels that coincide only within atol (not bitwise): still "coinciding within tolerance"
            for q in range(1, len(lv)):
                if lv[q] in lv[:q] and rng.random() < 0.5:
                    e[q] += 3e-13
                    counters["diag_levels_equal_within_atol"] += 1
            eigs.append(e + 1j * (np.array(lv) % 3) / 2 if cplxE else e)
    atol = float(rng.choice([1e-12, 1e-12, 1e-8]))  # (jitter 3e-13 is below both)
    solve = bd.solve_sylvester_diagonal(tuple(eigs), atol=atol)
    i, j = int(rng.integers(0, nb)), int(rng.integers(0, nb))
    if i != j and vtype != "sympy":
        # distinct blocks must not share energies (else the solver must raise - tested in C20): re-draw j == i
        ea, eb = np.atleast_1d(eigs[i]), np.atleast_1d(eigs[j])
        if np.any(np.isclose(ea.reshape(-1, 1), eb.reshape(1, -1))):
            j = i
    if i != j and vtype == "sympy":
        ea, eb = np.atleast_1d(eigs[i]), np.atleast_1d(eigs[j])
        if any(a == b for a in ea for b in eb):
            j = i
    shape = (sizes[i], sizes[j])
    cplxY = bool(rng.integers(0, 2))
    if vtype == "sympy":
        Y = sympy.Matrix(shape[0], shape[1], lambda r, c: sympy.Rational(int(rng.integers(-8, 9)), 8) + (sympy.I * sympy.Rational(int(rng.integers(-8, 9)), 8) if cplxY else 0))
        nnz = sum(1 for v in Y if v != 0)
    else:
        Yd = rng.integers(-8, 9, size=shape) / 8.0
        if cplxY:
            Yd = Yd + 1j * rng.integers(-8, 9, size=shape) / 8.0
        if rng.random() < 0.3:
            Yd = Yd.astype(np.complex64 if cplxY else np.float32)
            counters["diag_low_precision_rhs"] += 1
        ea = np.broadcast_to(np.atleast_1d(eigs[i]).reshape(-1, 1), shape) if np.ndim(eigs[i]) else np.zeros(shape)
        eb = np.broadcast_to(np.atleast_1d(eigs[j]).reshape(1, -1), shape) if np.ndim(eigs[j]) else np.zeros(shape)
        deg = np.abs(ea - eb) <= atol
        if vtype == "sparse":
            # hostile sparse patterns: rounding noise and explicitly stored zeros at degenerate positions
            noise = np.where(deg, rng.choice([0.0, 5e-17, -3e-17, 1e-13], size=shape), 0)
            Yd = np.where(deg, noise, Yd)
            Y = sparse.csr_array(Yd)
            if rng.random() < 0.5 and deg.any():
                r, c = np.argwhere(deg)[0]
                Y = sparse.coo_array((np.append(Y.tocoo().data, 0.0), (np.append(Y.tocoo().row, r), np.append(Y.tocoo().col, c))), shape=shape).tocsr()
                counters["diag_sparse_explicit_zero_at_degenerate"] += 1
            if np.any(noise != 0):
                counters["diag_sparse_noise_at_degenerate"] += 1
        else:
            Y = np.where(deg, 0, Yd) if rng.random() < 0.5 else Yd
            if rng.random() < 0.5 and np.any(deg):
                Y = np.array(Y, dtype=Yd.dtype)
                Y[deg] = 1e-15  # rounding noise on a kept degenerate pair of a dense right-hand side
        nnz = int(np.count_nonzero(Yd))
    before = monitors.COUNTERS.copy()
    try:
        with warnings.catch_warnings():
            warnings.simplefilter("error", RuntimeWarning)
            V = solve(Y, (i, j, 1))
    except RuntimeWarning as w:
        raise Violation(f"solve_sylvester_diagonal ({vtype}) raised a floating-point warning: {w}")
    except Exception as e:  # noqa: BLE001
        raise Violation(f"solve_sylvester_diagonal ({vtype}, index {(i, j)}) raised {type(e).__name__}: {e}")
    if V is zero:
        raise Violation("non-zero right-hand side gave the zero sentinel")
    # explicit residual (independent of the in-situ monitor)
    if vtype != "sympy":
        Vd = V.toarray() if sparse.issparse(V) else np.asarray(V)
        Ydd = Y.toarray() if sparse.issparse(Y) else np.asarray(Y)
        if not np.all(np.isfinite(Vd)):
            raise Violation(f"solve_sylvester_diagonal ({vtype}) returned non-finite values")
        dE = ea - eb
        res = np.where(deg, Vd, dE * Vd - Ydd)
        if np.abs(res).max(initial=0) > 1e-6 * max(1.0, np.abs(Ydd).max(initial=0)) if Ydd.dtype in (np.float32, np.complex64) else np.abs(res).max(initial=0) > 1e-10 * max(1.0, np.abs(Ydd).max(initial=0)):
            raise Violation(f"solve_sylvester_diagonal ({vtype}) residual {np.abs(res).max():.3e}")
        counters[f"diag_{vtype}_explicit_residuals"] += 1
    assert_monitor_ran = sum(monitors.COUNTERS.get(k, 0) - before.get(k, 0) for k in ("sylvester_dense", "sylvester_sparse", "sylvester_sympy"))
    if assert_monitor_ran == 0:
        counters["diag_monitor_not_reached"] += 1
    counters[f"diag_{vtype}"] += 1
    return nnz >= 2, ["diag", vtype, sizes, (i == j), cplxE, cplxY], dict(kind="diag", vtype=vtype, sizes=sizes, index=[i, j], atol=atol)


# ---------------------------------------------------------------------------------------------
def _direct_case(rng, counters):
    import pymablock.block_diagonalization as bd

    spec = implicit.gen(rng)
    c = implicit.build(spec)
    N, k = c["N"], c["k"]
    h0 = sparse.csr_array(c["H0"])
    opts = {}
    r = rng.random()
    if r < 0.3:
        opts["eigenvalue_atol"] = 1e-10
    # the `nonhermitian` keyword only decides whether the left-implicit orientation is prepared as well: with the default
    # (False) the right-implicit equations must still be solved for a non-Hermitian h_0
    flag_nh = (not c["hermitian"]) and bool(rng.random() < 0.6)
    counters["direct_nonhermitian_h0_default_flag"] += int((not c["hermitian"]) and not flag_nh)
    try:
        solve = bd.solve_sylvester_direct(h0, list(c["expl"]), nonhermitian=flag_nh, **opts)
    except Exception as e:  # noqa: BLE001
        raise Violation(f"solve_sylvester_direct setup raised {type(e).__name__}: {e}")
    nb = len(c["sizes"])
    cplx_rhs = bool(rng.integers(0, 2))
    n_calls = 0
    for a in range(nb):
        Y = rng.normal(size=(c["sizes"][a], N))
        if cplx_rhs:
            Y = Y + 1j * rng.normal(size=Y.shape)
        try:
            solve(Y, (a, nb, 1))
            n_calls += 1
            if flag_nh:
                Y2 = rng.normal(size=(N, c["sizes"][a])) + (1j * rng.normal(size=(N, c["sizes"][a])) if cplx_rhs else 0)
                solve(Y2, (nb, a, 1))
                n_calls += 1
        except Exception as e:  # noqa: BLE001
            raise Violation(f"solve_sylvester_direct call raised {type(e).__name__}: {e}")
    counters["direct_calls"] += n_calls
    counters["direct_degenerate"] += int(spec["degenerate"] and max(c["sizes"]) >= 2)
    counters["direct_structured_degenerate"] += int(bool(spec.get("structured")) and spec["degenerate"] and max(c["sizes"]) >= 2)
    counters["direct_real_h0_complex_rhs"] += int((not spec["complex"]) and cplx_rhs)
    return True, ["direct", spec["hermitian"], spec["complex"], c["sizes"], N, spec["degenerate"], cplx_rhs], dict(kind="direct", **{k_: v for k_, v in spec.items()})


def _greens_case(rng, counters):
    from pymablock.linalg import direct_greens_function

    N = int(rng.integers(3, 10))
    cplx = bool(rng.integers(0, 2))
    normal = bool(rng.random() < 0.6)
    kdim = int(rng.integers(0, 3))

    def rnd(shape):
        a = rng.normal(size=shape)
        return a + 1j * rng.normal(size=shape) if cplx else a

    E = rng.choice(np.arange(0, 30), size=N, replace=False) * 0.5
    E0 = E[0]
    E[:kdim] = E0 if kdim else E[:kdim]
    structured = bool(rng.random() < 0.35)  # eigenvectors of decoupled subsystems: sparse, disjoint supports
    if structured:
        R = implicit.structured_basis(rng, N, cplx, normal)
        L = R if normal else np.linalg.inv(R).conj().T
    elif normal:
        Q = np.linalg.qr(rnd((N, N)))[0]
        R, L = Q, Q
    else:
        Q = np.linalg.qr(rnd((N, N)))[0]
        R = Q @ (np.eye(N) + 0.3 * np.triu(rnd((N, N)), 1))
        L = np.linalg.inv(R).conj().T
    counters["greens_structured_degenerate"] += int(structured and kdim >= 2)
    H = R @ np.diag(E) @ L.conj().T
    if not cplx:
        H, R, L = H.real, R.real, L.real
    energy = E0 if kdim else float(rng.choice(E)) + 0.25
    K, Lk = R[:, :kdim], L[:, :kdim]
    try:
        gf = direct_greens_function(sparse.csr_array(H), energy, kernel_vectors=K if kdim or rng.random() < 0.5 else None,
                                    left_kernel_vectors=None if normal and rng.random() < 0.5 else (Lk if kdim or True else None))
        for _ in range(2):
            v = rng.normal(size=N) + (1j * rng.normal(size=N) if rng.random() < 0.5 else 0)
            gf(v)
    except Exception as e:  # noqa: BLE001
        raise Violation(f"direct_greens_function raised {type(e).__name__}: {e}")
    counters["greens_cases"] += 1
    counters["greens_nonnormal"] += int(not normal)
    return True, ["greens", N, cplx, normal, kdim, structured], dict(kind="greens", N=N, complex=cplx, normal=normal, kernel_dim=kdim, structured=structured)


def _kpm_case(rng, counters):
    import pymablock.block_diagonalization as bd

    N = int(rng.integers(6, 11))
    cplx = bool(rng.integers(0, 2))
    top = bool(rng.random() < 0.2)
    if top:
        # the explicit states are the TOP of a spectrum whose offset is large compared with its width (N = 120..220, a
        # group of close levels at the top): the Lanczos estimate of the upper spectral bound is then below the explicit
        # energies unless the solver widens the interval with them
        N = int(rng.integers(120, 221))
        ka = int(rng.integers(4, 11))
        offs = float(rng.choice([100.0, 1000.0]))
        Es = np.sort(np.concatenate([[offs], offs + 0.2 + 0.6 * rng.random(N - ka - 1), offs + 0.98 + 0.02 * rng.random(ka)]))
        Q = np.linalg.qr(rng.normal(size=(N, N)) + (1j * rng.normal(size=(N, N)) if cplx else 0))[0]
        H0 = (Q * Es) @ Q.conj().T
        H0 = (H0 + H0.conj().T) / 2
        E, V = np.linalg.eigh(H0)
        sel = slice(N - ka, N)
    else:
        A = rng.normal(size=(N, N)) + (1j * rng.normal(size=(N, N)) if cplx else 0)
        H0 = (A + A.conj().T) / 2 + np.diag(np.arange(N) * 2.0)
        E, V = np.linalg.eigh(H0)
        ka = int(rng.integers(1, 3))
        sel = slice(0, ka)
    vA = V[:, sel]
    atol = float(rng.choice([1e-4, 1e-6]))
    opts = {"atol": atol}
    if top:
        atol = 1e-3
        # (offset 1000 with the default eps = 0.01 is rejected by design: "the Hamiltonian has a single eigenvalue")
        opts = {"atol": 1e-3, "eps": 1e-3 if offs > 500 else float(rng.choice([1e-2, 1e-3]))}
    counters["kpm_explicit_top_of_spectrum"] += int(top)
    starved = (not top) and rng.random() < 0.25
    if starved:
        # too few moments for the requested accuracy: the solver must warn (or still be accurate)
        opts = {"atol": 1e-10, "max_moments": 40}
        atol = 1e-10
    aux = (not top) and rng.random() < 0.4
    if aux:
        opts["auxiliary_vectors"] = V[:, [ka + 1, ka] if rng.random() < 0.5 else [ka, ka + 1]]  # any order
        if (N + ka) % 2:
            # eigenvectors are defined up to a phase: complex auxiliary vectors are valid also for a real H_0
            opts["auxiliary_vectors"] = opts["auxiliary_vectors"] * np.exp(1j * np.array([0.7, 2.1]))
            counters["kpm_aux_complex_phases"] += 1
    h0 = sparse.csr_array(H0) if rng.random() < 0.5 else H0
    with warnings.catch_warnings(record=True) as wlist:
        warnings.simplefilter("always")
        try:
            solve = bd.solve_sylvester_KPM(h0, [vA], solver_options=opts)
            Y = rng.normal(size=(ka, N)) + (1j * rng.normal(size=(ka, N)) if cplx else 0)
            Vs = solve(Y, (0, 1, 1))
        except Exception as e:  # noqa: BLE001
            raise Violation(f"solve_sylvester_KPM raised {type(e).__name__}: {e}")
    warned = any("did not converge" in str(w.message) for w in wlist)
    P = np.eye(N) - vA @ vA.conj().T
    if not np.all(np.isfinite(Vs)):
        raise Violation(f"solve_sylvester_KPM returned non-finite values (explicit states at the {'top' if top else 'bottom'} of the spectrum, N={N})")
    res = E[sel].reshape(-1, 1) * Vs - Vs @ H0 - Y @ P
    bandwidth = float(E.max() - E.min())
    bound = 10 * atol * bandwidth * max(1.0, float(np.linalg.norm(Y)))
    rn = float(np.linalg.norm(res))
    if not np.all(np.isfinite(Vs)):
        raise Violation("solve_sylvester_KPM returned non-finite values")
    if rn > bound and not warned:
        raise Violation(f"solve_sylvester_KPM residual {rn:.3e} above 10 x atol x bandwidth = {bound:.3e} without a convergence warning (aux={aux})")
    proj = float(np.linalg.norm(Vs @ vA))
    if proj > 1e-6 * max(1.0, float(np.linalg.norm(Vs))):
        raise Violation(f"solve_sylvester_KPM result has a component in the explicit subspace ({proj:.3e})")
    counters["kpm_calls"] += 1
    counters["kpm_with_aux"] += int(aux)
    counters["kpm_warned"] += int(warned)
    counters["kpm_starved"] += int(starved)
    return True, ["kpm", N, cplx, ka, atol, aux, top], dict(kind="kpm", top=top, N=N, complex=cplx, atol=atol, aux=aux, residual=rn, bound=bound)


def _bd_case(rng, counters, implicit_mode):
    from pymablock import block_diagonalize

    if implicit_mode:
        spec = implicit.gen(rng)
        c = implicit.build(spec)
        Hi, _ = implicit.hamiltonians(c)
        kw = dict(subspace_eigenvectors=c["expl"], hermitian=c["hermitian"])
        if spec["fd"]:
            kw["fully_diagonalize"] = (0,)
        try:
            outs = block_diagonalize(Hi, **kw)
            nb = len(c["sizes"]) + 1
            for s in range(3):
                for i in range(nb):
                    for j in range(nb):
                        for n in ([(1,), (2,)] if spec["n_par"] == 1 else [(1, 0), (1, 1)]):
                            outs[s][(i, j) + n]
        except Exception as e:  # noqa: BLE001
            raise Violation(f"implicit block_diagonalize raised {type(e).__name__}: {e}")
        counters["bd_implicit_runs"] += 1
        return True, ["bd_implicit", spec["hermitian"], spec["complex"], c["sizes"], spec["N"]], dict(kind="bd_implicit", **spec)
    spec = matprob.gen_spec(rng, "quick", hermitian=bool(rng.random() < 0.7))
    spec["max_total"] = min(spec["max_total"], 3)
    p = matprob.build(spec)
    outs = matprob.call_library(p)
    matprob.extract(outs, p, rng=rng)
    counters["bd_runs"] += 1
    return True, ["bd"] + matprob.signature(spec), dict(kind="bd", spec=spec)


def _2q_case(rng, counters):
    try:
        from vf.models import fock
        from vf import secondq
    except Exception:  # the second-quantised machinery is optional for this kind
        counters["2q_unavailable"] += 1
        return False, ["2q", "unavailable"], dict(kind="2q", note="matrix model not available")
    return secondq.sylvester_residual_case(rng, counters)


def run_case(spec):
    rng = rng_for(16, spec["case"])
    counters = Counter()
    kind = spec["kind"]
    if kind == "diag":
        nt, sig, sample = _diag_case(rng, counters)
    elif kind == "direct":
        nt, sig, sample = _direct_case(rng, counters)
    elif kind == "greens":
        nt, sig, sample = _greens_case(rng, counters)
    elif kind == "kpm":
        nt, sig, sample = _kpm_case(rng, counters)
    elif kind == "bd":
        nt, sig, sample = _bd_case(rng, counters, False)
    elif kind == "bd_implicit":
        nt, sig, sample = _bd_case(rng, counters, True)
    else:
        nt, sig, sample = _2q_case(rng, counters)
    return dict(verdict="held", sig=sig, nontrivial=bool(nt), counters=dict(counters), sample=jsonable(sample))


def finalize(c, tier, evaluations, distinct):
    reasons = []
    need = dict(sylvester_dense=500, sylvester_sparse=100, sylvester_sympy=100, sylvester_direct_right=100, sylvester_direct_left=30,
                sylvester_direct_complex=30, greens_calls=300, greens_degenerate_kernel=30, kpm_calls=30, kpm_warned=3, direct_degenerate=10,
                diag_sparse_noise_at_degenerate=5, diag_levels_equal_within_atol=20, diag_sparse_explicit_zero_at_degenerate=5, bd_implicit_runs=30, direct_real_h0_complex_rhs=5)
    for k, v in need.items():
        if c.get(k, 0) < v:
            reasons.append(f"monitored calls {k}: {c.get(k, 0)} (< {v})")
    if c.get("diag_monitor_not_reached", 0):
        reasons.append("in-situ diagonal-solver monitor was bypassed in some direct calls")
    return reasons
