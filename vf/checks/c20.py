"""C20 - ill-posed problems are rejected, never answered with silent garbage."""
from __future__ import annotations

import copy
import itertools
from collections import Counter

import numpy as np
import sympy
from scipy import sparse

from vf import matprob, oracles
from vf.util import GR, Violation, jsonable, rng_for, to_dense

ID = "C20"
LEVEL = "exploration"
RULE = (
    "each listed class of ill-posed input is embedded at a random place of an otherwise valid generated problem (any block, dense / "
    "sparse / sympy values, later order, second parameter, any designation): offdiag_h0 (H_0 couples two blocks; numeric and provably "
    "non-zero symbolic), shared_energy (two coupled blocks share an unperturbed energy exactly, or within the library's window atol + 1e-5 relative for floats; "
    "coupled at first order or only at second order through a third block), degenerate_elimination (mask selects a pair of equal "
    "energies), not_orthonormal (eigenvectors with L^dagger R != 1), asymmetric_mask (Hermitian mode), nonhermitian_symbolic "
    "(Hermitian mode, sympy term not Hermitian, at first or second order / second parameter), exclusive_options. Oracle: a "
    "ValueError / TypeError / NotImplementedError must be raised at definition or no later than the designated first request that "
    "needs the ill-defined quantity (the request that, on the valid twin, triggers the corresponding computation). Negative "
    "controls: the valid twin of every case must be accepted, the same requests must succeed, and all elements up to the order "
    "bound must be finite (also watched in situ: numpy RuntimeWarnings from library code, non-finite solver outputs). "
    "Non-trivial: every ill-posed case whose twin was accepted; distinct = (class, variant, structural signature)"
)
ASSUMPTIONS = [
    "the class -> needing-request map is the harness's: offdiag_h0, degenerate_elimination, not_orthonormal, asymmetric_mask, exclusive_options at definition; shared_energy at U[a,b,n] for the first order n at which blocks a,b are coupled; nonhermitian_symbolic at H_tilde[0,0,n_bad]",
    "H_0 that is non-diagonal only inside a block merely warns (documented) and is not in the listed classes",
]
BUDGET = {"quick": dict(cases=2400, seconds=300), "thorough": dict(cases=30000, seconds=540)}
CASE_TIMEOUT = 120
MONITORS = {"product": False}
MONITOR_VERDICTS = ()  # FP/non-finite monitor events are judged here, on the valid twins only
CLASSES = ["offdiag_h0", "shared_energy", "degenerate_elimination", "not_orthonormal", "asymmetric_mask", "nonhermitian_symbolic", "exclusive_options", "valid"]
REJECT = (ValueError, TypeError, NotImplementedError)


def plan(tier, seed):
    rng = rng_for(20, seed)
    specs = []
    for i in range(BUDGET[tier]["cases"]):
        cls = CLASSES[i % len(CLASSES)]
        force = {}
        if cls == "shared_energy":
            force = dict(sizes=[int(rng.integers(1, 4)) for _ in range(int(rng.integers(2, 5)))])
        if cls == "degenerate_elimination":
            force = dict(sel="mask", degenerate=True, degblocks=bool(rng.random() < 0.6), sizes=[int(rng.integers(2, 4)) for _ in range(int(rng.integers(1, 4)))])
        if cls == "asymmetric_mask":
            force = dict(sel="mask", degenerate=False, sizes=[int(rng.integers(2, 4)) for _ in range(int(rng.integers(1, 4)))])
        if cls == "not_orthonormal":
            force = dict(design="vectors")
        if cls == "nonhermitian_symbolic":
            force = dict(vtype="sympy")
        if cls == "offdiag_h0":
            force = dict(sizes=[int(rng.integers(1, 4)) for _ in range(int(rng.integers(2, 5)))])
        herm = True if cls in ("asymmetric_mask", "nonhermitian_symbolic") else bool(rng.random() < 0.7)
        spec = matprob.gen_spec(rng, "quick", hermitian=herm, **force, units_exp=0, user_atol=0.0)
        spec["offset"] = 0
        spec["symbolic"] = False  # with free symbols sympy cannot *prove* non-Hermiticity / non-zero blocks: outside the classes
        spec["max_total"] = min(spec["max_total"], 2)
        if cls == "not_orthonormal":
            spec["design"] = "vectors"
            if spec["vtype"] == "sympy" and sum(spec["sizes"]) > 5:
                spec["vtype"] = "dense"
        if cls == "asymmetric_mask" and max(spec["sizes"]) < 3:
            spec["sizes"][0] = 3
        if cls == "degenerate_elimination" and max(spec["sizes"]) < 2:
            spec["sizes"][0] = 2
        spec = matprob.normalise(spec)
        spec["cls"] = cls
        spec["rs"] = int(rng.integers(0, 2**31))
        specs.append(spec)
    return specs


def _requests_ok(outs, reqs):
    for s, idx in reqs:
        outs[s][idx]


def _twin_is_fine(p, reqs, counters):
    """Negative control: the valid problem must be accepted, requests succeed, results finite."""
    from vf import monitors

    try:
        outs = matprob.call_library(p)
        _requests_ok(outs, reqs)
        Ht, U, G = matprob.extract(outs, p)
    except Violation as v:
        raise Violation(f"negative control rejected: {v}")
    except Exception as e:  # noqa: BLE001
        raise Violation(f"negative control (valid twin) raised {type(e).__name__}: {e}")
    oracles.finite_check(p, Ht, U, G)
    bad = [m for k, m in monitors.VIOLATIONS if k in ("fp", "nonfinite")]
    if bad:
        raise Violation(f"well-posed input produced a floating-point exception / non-finite intermediate: {bad[0]}")
    counters["negative_controls"] += 1
    return outs


def _expect_rejection(label, build_and_request, counters):
    try:
        build_and_request()
    except REJECT as e:
        counters["rejected"] += 1
        counters[f"rejected_{type(e).__name__}"] += 1
        return
    except Violation as v:
        # call_library wraps library exceptions: unwrap
        cause = v.__cause__
        if isinstance(cause, REJECT):
            counters["rejected"] += 1
            counters[f"rejected_{type(cause).__name__}"] += 1
            return
        raise Violation(f"{label}: raised {type(cause).__name__ if cause else 'Violation'} ({cause or v}) instead of ValueError/TypeError/NotImplementedError")
    except Exception as e:  # noqa: BLE001
        raise Violation(f"{label}: raised {type(e).__name__} ({e}) instead of ValueError/TypeError/NotImplementedError")
    raise Violation(f"{label}: ill-posed input was accepted and the needing request returned a value (silent garbage)")


def _set(M, i, j, v, exact):
    M = M.copy()
    M[i, j] = GR.of(v) if exact else v
    return M


def run_case(spec):
    from pymablock import block_diagonalize

    rng = rng_for(20, spec["rs"])
    cls = spec["cls"]
    p = matprob.build(spec)
    counters = Counter({f"class_{cls}": 1, f"vtype_{spec['vtype']}": 1, f"design_{spec['design']}": 1})
    nb = len(p.sizes)
    off = p.offsets()
    z = (0,) * p.n_par
    e1 = tuple(1 if k == 0 else 0 for k in range(p.n_par))
    variant = ""
    twin_reqs = []
    if cls == "valid":
        _twin_is_fine(p, [], counters)
        return dict(verdict="held", sig=["valid"] + matprob.signature(spec), nontrivial=True, counters=dict(counters), sample=matprob.sample_of(p))

    if cls == "offdiag_h0":
        a, b = sorted(int(x) for x in rng.choice(nb, size=2, replace=False))
        i, j = int(rng.integers(off[a], off[a + 1])), int(rng.integers(off[b], off[b + 1]))
        val = float(rng.choice([0.5, -1.25, 1e-6, 3.0]))
        tf = dict(p.terms_f)
        tx = dict(p.terms_x) if p.exact else None
        one_sided = (not p.hermitian) and rng.random() < 0.6
        if one_sided and rng.random() < 0.5:
            i, j = j, i  # only a block BELOW the block diagonal is non-zero
        tf[z] = _set(tf[z], i, j, val, False)
        if not one_sided:
            tf[z] = _set(tf[z], j, i, val, False)
        if p.exact:
            from fractions import Fraction
            tx[z] = _set(tx[z], i, j, Fraction(val), True)
            if not one_sided:
                tx[z] = _set(tx[z], j, i, Fraction(val), True)
        variant = f"{'one-sided ' + ('lower ' if i > j else 'upper ') if one_sided else ''}{val}"
        design = spec["design"] if spec["design"] != "vectors" else "indices"
        q = matprob.derive(p, terms_f=tf, terms_x=tx, design=design)
        _twin_is_fine(p, [], counters)
        _expect_rejection(f"H_0 couples blocks {a},{b} ({variant}, {spec['vtype']})", lambda: matprob.call_library(q), counters)
    elif cls == "shared_energy":
        a, b = sorted(int(x) for x in rng.choice(nb, size=2, replace=False))
        i, j = int(rng.integers(off[a], off[a + 1])), int(rng.integers(off[b], off[b + 1]))
        close = (not p.exact) and rng.random() < 0.4
        late = nb >= 3 and rng.random() < 0.4
        tf = {n: M.copy() for n, M in p.terms_f.items()}
        tx = {n: M.copy() for n, M in p.terms_x.items()} if p.exact else None
        Ei = tf[z][i, i]
        # make every state of level E_j in block b take the value E_i (keeps degeneracies inside b consistent)
        Ej = tf[z][j, j]
        # inside the library's window "equal within atol (default 1e-12) + 1e-5 relative" (np.isclose with the solver's
        # atol since fix F19; before it the absolute part was numpy's default 1e-8, which is not an `atol` the user chose)
        delta = 0.5 * (1e-12 + 1e-5 * abs(Ei)) if close else 0.0
        for k in range(off[b], off[b + 1]):
            if tf[z][k, k] == Ej:
                tf[z][k, k] = Ei + delta
                if p.exact:
                    tx[z][k, k] = tx[z][i, i]
        # coupling: make sure the first-order term couples (i, j) - or, for `late`, that a and b are NOT coupled
        # directly but both couple to a third block c, so that the pair is first needed at second order
        if late:
            c = [x for x in range(nb) if x not in (a, b)][0]
            kc = int(off[c])
            for n in list(tf):
                if n == z:
                    continue
                sa, sb = slice(off[a], off[a + 1]), slice(off[b], off[b + 1])
                tf[n][sa, sb] = 0
                tf[n][sb, sa] = 0
                if p.exact:
                    tx[n][sa, sb] = GR(0)
                    tx[n][sb, sa] = GR(0)
            for (r, cc) in ((i, kc), (kc, i), (j, kc), (kc, j)):
                tf[e1][r, cc] = 1.0
                if p.exact:
                    tx[e1][r, cc] = GR(1)
            need_order = tuple(2 if k == 0 else 0 for k in range(p.n_par))
        else:
            indirect = False
            sa_, sb_ = list(range(off[a], off[a + 1])), list(range(off[b], off[b + 1]))
            if (len(sa_) >= 2 or len(sb_) >= 2) and rng.random() < 0.35:
                # the two blocks ARE coupled at first order, but not at the positions of the degenerate states: those are
                # coupled only through the other states (from second order on); the blocks still share an energy
                indirect = True
                Ez = np.diag(tf[z])
                shared_a = [r for r in sa_ if abs(Ez[r] - Ez[i]) <= 1e-9 * max(1.0, abs(Ez[i])) + 1e-12]
                shared_b = [cc for cc in sb_ if abs(Ez[cc] - Ez[i]) <= 1e-5 * max(1.0, abs(Ez[i]))]
                for n in list(tf):
                    if n == z:
                        continue
                    for r in shared_a:
                        for cc in shared_b:
                            tf[n][r, cc] = tf[n][cc, r] = 0
                            if p.exact:
                                tx[n][r, cc] = tx[n][cc, r] = GR(0)
                others = [(r, cc) for r in sa_ for cc in sb_ if not (r in shared_a and cc in shared_b)]
                if not others:
                    indirect = False
                else:
                    for (r, cc) in others:
                        tf[e1][r, cc] = tf[e1][cc, r] = 1.0
                        if p.exact:
                            tx[e1][r, cc] = tx[e1][cc, r] = GR(1)
            if not indirect:
                for (r, cc) in ((i, j), (j, i)):
                    tf[e1][r, cc] = 1.0
                    if p.exact:
                        tx[e1][r, cc] = GR(1)
            need_order = e1
        variant = f"{'isclose' if close else 'exact'}{' late' if late else ''}{' indirect' if (not late and indirect) else ''}"
        sel_fd = tuple(x for x in p.fd)
        q = matprob.derive(p, terms_f=tf, terms_x=tx, masks={}, fd=sel_fd)
        q.spec["max_total"] = 2

        if not p.hermitian and rng.random() < 0.5:
            a, b = b, a  # non-Hermitian mode solves both orientations: the lower one may be needed first
            variant += " lower-first"

        held = {}

        def go():
            held["outs"] = matprob.call_library(q)
            held["outs"][1][(a, b) + need_order]

        def again():
            # the rejection must not depend on the history: the same request repeated, the mirrored one and the
            # H_tilde element one order later on the SAME computation must be rejected again, never answered
            if "outs" not in held:
                return
            later = tuple(x + (1 if k == 0 else 0) for k, x in enumerate(need_order))
            probes = [(1, (a, b) + need_order), (1, (b, a) + need_order), (2, (a, b) + need_order)]
            if not late:
                probes.append((0, (a, a) + later))  # H_tilde_aa at the next order contains H_ab U_ba: needs the same quantity
            for s_, idx in probes:
                try:
                    v = held["outs"][s_][idx]
                except REJECT:
                    counters["rejected_again_after_history"] += 1
                    continue
                except Exception as e:  # noqa: BLE001
                    raise Violation(f"after a rejected request, {('H_tilde', 'U', 'U_inv')[s_]}{list(idx)} raised {type(e).__name__} ({e}) instead of the rejection")
                raise Violation(f"blocks {a},{b} share an energy ({variant}): after the first request was rejected, {('H_tilde', 'U', 'U_inv')[s_]}{list(idx)} "
                                f"on the same computation returned a value ({type(v).__name__}) - the answer depends on the request history")

        base = matprob.derive(p, terms_f={n: (M if n == z else tf[n]) for n, M in p.terms_f.items()},
                              terms_x=({n: (M if n == z else tx[n]) for n, M in p.terms_x.items()} if p.exact else None), masks={}, fd=sel_fd)
        _twin_is_fine(base, [(1, (a, b) + need_order)], counters)
        _expect_rejection(f"blocks {a},{b} share an energy ({variant}), needed at U[{a},{b},{need_order}]", go, counters)
        again()
    elif cls == "degenerate_elimination":
        cands = [(b, m) for b, m in p.masks.items()]
        Ec = np.array([complex(e) for e in p.E])
        pick = None
        for b, m in cands:
            sl = slice(off[b], off[b + 1])
            same = (Ec[sl, None] == Ec[None, sl]) & ~np.eye(p.sizes[b], dtype=bool)
            if same.any():
                pick = (b, np.argwhere(same)[int(rng.integers(0, same.sum()))])
                break
        if pick is None:
            return dict(verdict="inconclusive", detail="generated problem has no degenerate pair inside a masked block")
        b, (r, c) = pick
        m = p.masks[b].copy()
        m[r, c] = m[c, r] = True
        variant = "off-diagonal degenerate pair"
        if rng.random() < 0.3:
            m = p.masks[b].copy()
            m[r, r] = True
            variant = "diagonal element"
        q = copy.copy(p)
        q.kwargs = dict(p.kwargs)
        fdk = q.kwargs["fully_diagonalize"]
        q.kwargs["fully_diagonalize"] = m if isinstance(fdk, np.ndarray) else {**fdk, b: m}
        _twin_is_fine(p, [], counters)
        _expect_rejection(f"mask eliminates a pair of equal energies ({variant})", lambda: matprob.call_library(q), counters)
    elif cls == "asymmetric_mask":
        cands = [b for b in p.masks if p.sizes[b] >= 2]
        if not cands:
            return dict(verdict="inconclusive", detail="no masked block with >= 2 states")
        b = cands[int(rng.integers(0, len(cands)))]
        Ec = np.array([complex(e) for e in p.E])[off[b]:off[b + 1]]
        pairs = [(r, c) for r in range(p.sizes[b]) for c in range(p.sizes[b]) if r != c and Ec[r] != Ec[c]]
        if not pairs:
            return dict(verdict="inconclusive", detail="masked block fully degenerate")
        r, c = pairs[int(rng.integers(0, len(pairs)))]
        m = p.masks[b].copy()
        m[r, c], m[c, r] = True, False
        q = copy.copy(p)
        q.kwargs = dict(p.kwargs)
        fdk = q.kwargs["fully_diagonalize"]
        q.kwargs["fully_diagonalize"] = m if isinstance(fdk, np.ndarray) else {**fdk, b: m}
        _twin_is_fine(p, [], counters)
        _expect_rejection("asymmetric mask in Hermitian mode", lambda: matprob.call_library(q), counters)
    elif cls == "not_orthonormal":
        q = copy.copy(p)
        q.kwargs = dict(p.kwargs)
        vecs = list(q.kwargs["subspace_eigenvectors"])
        b = int(rng.integers(0, len(vecs)))
        how = str(rng.choice(["scale", "mix", "tilt", "swap_left", "one_overlap", "one_overlap"])) if not p.hermitian else str(rng.choice(["scale", "mix", "tilt"]))
        if how == "one_overlap" and (p.N < 2 or p.exact):
            how = "scale"
        if how == "tilt" and len(vecs) < 2:
            how = "scale"
        variant = how

        def damage(V, other=None):
            if isinstance(V, sympy.MatrixBase):
                V = V.copy()
                if how == "tilt":
                    if p.hermitian:
                        V[:, 0] = sympy.Rational(4, 5) * V[:, 0] + sympy.Rational(3, 5) * other
                    else:
                        V[:, 0] = V[:, 0] + sympy.Rational(1, 4) * other
                    return V
                if how == "scale":
                    V[:, 0] = V[:, 0] * sympy.Rational(11, 10)
                else:
                    V[:, 0] = V[:, 0] + sympy.Rational(1, 7) * (other if other is not None else V[:, -1] + sympy.ones(V.rows, 1))
                return V
            V = np.array(V, dtype=complex if np.iscomplexobj(V) else float)
            if how == "tilt":
                # unit norm kept (diagonal of the overlap stays 1) but a component along another block's vector
                if p.hermitian:
                    V[:, 0] = 0.8 * V[:, 0] + 0.6 * other
                else:
                    V[:, 0] = V[:, 0] + 0.25 * other
                return V
            if how == "scale":
                V[:, 0] *= 1.1
            else:
                V[:, 0] = V[:, 0] + (other if other is not None else np.ones(V.shape[0])) / 7.0
            return V

        ob = (b + 1) % len(vecs)
        if len(vecs) > 1 and (spec["rs"] % 4 == 0):
            # tilt towards a ZERO-ENERGY state of another block: every subspace stays internally orthonormal and the projected
            # H_0 stays block diagonal with distinct energies, so only the cross-subspace overlap check can reject the input
            r2 = rng_for(20, spec["rs"], 77)
            szs = [int(np.shape(v if p.hermitian else v[0])[1]) for v in vecs]
            Nt = sum(szs)
            En = np.arange(1, Nt + 1) * 1.5 + r2.random(Nt)
            o = np.concatenate([[0], np.cumsum(szs)])
            En[o[ob]] = 0.0
            Q = np.linalg.qr(r2.normal(size=(Nt, Nt)) + (1j * r2.normal(size=(Nt, Nt)) if r2.random() < 0.5 else 0))[0]
            H0k = (Q * En) @ Q.conj().T
            A = r2.normal(size=(Nt, Nt))
            H1k = A + A.T
            good = [Q[:, o[k]:o[k + 1]].copy() for k in range(len(szs))]
            bad = [g.copy() for g in good]
            bad[b][:, 0] = 0.8 * good[b][:, 0] + 0.6 * good[ob][:, 0]
            wrap = (lambda vs: tuple(vs)) if p.hermitian else (lambda vs: tuple((v, v) for v in vs))
            try:
                outs = block_diagonalize([H0k, H1k], subspace_eigenvectors=wrap(good), hermitian=p.hermitian)
                outs[0][0, 0, 2]
            except Exception as e:  # noqa: BLE001
                raise Violation(f"valid twin of the kernel-tilt case was rejected: {type(e).__name__}: {e}")
            counters["not_orthonormal_kernel_tilt"] += 1

            def _bad():
                o2 = block_diagonalize([H0k, H1k], subspace_eigenvectors=wrap(bad), hermitian=p.hermitian)
                o2[0][0, 0, 2]
                o2[1][0, 1, 1]

            _expect_rejection("eigenvectors not (bi)orthonormal (tilt towards a zero-energy state of another block)", _bad, counters)
            return dict(verdict="held", sig=["not_orthonormal", "kernel_tilt", szs, p.hermitian, b, ob], nontrivial=True, counters=dict(counters), sample=dict(kind="kernel_tilt", sizes=szs, hermitian=p.hermitian))
        if p.hermitian:
            other = vecs[ob][:, 0] if len(vecs) > 1 else None
            vecs[b] = damage(vecs[b], other)
        else:
            Rb, Lb = vecs[b]
            def _arr(v):
                return np.array(v.tolist() if isinstance(v, sympy.MatrixBase) else v, dtype=complex)

            Rall = np.hstack([_arr(v[0]) for v in vecs])
            Lswap = np.hstack([_arr(v[0] if q == b else v[1]) for q, v in enumerate(vecs)])
            if how == "swap_left" and np.allclose(Lswap.conj().T @ Rall, np.eye(Rall.shape[1]), atol=1e-9):
                how = variant = "scale"  # (R_b, R_b) happens to be biorthonormal with the rest: a valid basis
            if how == "one_overlap":
                # exactly ONE entry of L^dagger R deviates from the identity, strictly below or above the diagonal:
                # left vector c1 gets a component along left vector c2 (overlap (c1, c2) = 0.3), all other overlaps intact
                owner = np.repeat(np.arange(len(vecs)), [np.shape(v[0])[1] for v in vecs])
                c1, c2 = (int(x) for x in rng.choice(len(owner), size=2, replace=False))
                Lall = np.hstack([_arr(v[1]) for v in vecs])
                newcol = Lall[:, c1] + 0.3 * Lall[:, c2]
                b1 = int(owner[c1])
                k1 = c1 - int(np.flatnonzero(owner == b1)[0])
                Lb1 = _arr(vecs[b1][1]).copy()
                Lb1[:, k1] = newcol
                vecs[b1] = (vecs[b1][0], Lb1 if np.iscomplexobj(vecs[b1][1]) or np.iscomplexobj(newcol) and np.abs(newcol.imag).max() > 0 else Lb1.real)
                how = variant = f"one_overlap {'below' if c1 > c2 else 'above'} the diagonal, {'same' if owner[c1] == owner[c2] else 'different'} block"
            elif how == "swap_left":
                vecs[b] = (Rb, Rb)  # left vectors replaced by the right ones: not biorthogonal
            else:
                vecs[b] = (damage(Rb, vecs[ob][0][:, 0] if len(vecs) > 1 else None), Lb)
        q.kwargs["subspace_eigenvectors"] = tuple(vecs)
        _twin_is_fine(p, [], counters)
        _expect_rejection(f"eigenvectors not (bi)orthonormal ({how})", lambda: matprob.call_library(q), counters)
    elif cls == "nonhermitian_symbolic":
        # a sympy term that is not Hermitian, in Hermitian mode; located at first / second order, first / last parameter
        orders_present = [n for n in p.terms_x if n != z]
        n_bad = orders_present[int(rng.integers(0, len(orders_present)))]
        tf = {n: M.copy() for n, M in p.terms_f.items()}
        tx = {n: M.copy() for n, M in p.terms_x.items()}
        i, j = (int(x) for x in rng.choice(p.N, size=2, replace=False)) if p.N > 1 else (0, 0)
        from fractions import Fraction
        if i != j:
            tx[n_bad][i, j] = tx[n_bad][i, j] + GR(Fraction(3, 8))
            tf[n_bad][i, j] += 0.375
            variant = "asymmetric off-diagonal entry"
        # the anchored check lives in the sympy-matrix (polynomial in symbols) input path
        syms = [sympy.Symbol(f"lam{k}", real=True) for k in range(p.n_par)]

        def poly_of(problem):
            M = sympy.zeros(p.N, p.N)
            for n, T in problem.hamiltonian.items():
                mono = sympy.Integer(1)
                for sy, k in zip(syms, n):
                    mono = mono * sy**k
                M = M + mono * T
            return M

        good = matprob.derive(p, terms_f=p.terms_f, terms_x=p.terms_x, design="indices", container="dict")
        q = matprob.derive(p, terms_f=tf, terms_x=tx, design="indices", container="dict")
        Mgood, Mbad = poly_of(good), poly_of(q)
        if set(syms) - Mgood.free_symbols or set(syms) - Mbad.free_symbols:
            return dict(verdict="inconclusive", detail="a perturbation vanishes identically (symbol absent from the matrix)")

        if rng.random() < 0.4:
            # second-quantised twin: the same c-number matrices on top of a boson mode, H_0 -> H_0 + omega N_a on every
            # diagonal entry (all energy differences unchanged); the non-Hermitian coefficient itself is operator free
            from sympy.physics.quantum import Dagger as _Dg
            from sympy.physics.quantum.boson import BosonOp as _Bos

            a_ = _Bos("a")
            dress = sympy.Rational(7, 3) * _Dg(a_) * a_ * sympy.eye(p.N)
            try:
                import warnings as _w

                with _w.catch_warnings():
                    _w.simplefilter("ignore")
                    outs = block_diagonalize(Mgood + dress, symbols=syms, **good.kwargs)
                    outs[0][(0, 0) + n_bad]
                Mgood, Mbad = Mgood + dress, Mbad + dress
                variant += " on a boson mode"
                counters["nonhermitian_symbolic_second_quantised"] += 1
            except Exception:  # noqa: BLE001
                counters["second_quantised_twin_not_supported"] += 1  # (masks / degenerate levels): keep the plain matrices

        def go():
            outs = block_diagonalize(Mbad, symbols=syms, **q.kwargs)
            outs[0][(0, 0) + n_bad]

        try:
            outs = block_diagonalize(Mgood, symbols=syms, **good.kwargs)
            outs[0][(0, 0) + n_bad]
            counters["negative_controls"] += 1
        except Exception as e:  # noqa: BLE001
            raise Violation(f"negative control (Hermitian sympy matrix) raised {type(e).__name__}: {e}")
        _expect_rejection(f"non-Hermitian symbolic term at order {n_bad} in Hermitian mode (sympy matrix input)", go, counters)
    elif cls == "exclusive_options":
        options = ["vectors_and_indices", "solver_and_fd", "pairs_in_hermitian_mode", "ndarray_fd_multiblock", "legacy_solver_nonhermitian"]
        how = options[int(rng.integers(0, len(options)))]
        variant = how
        pv = matprob.derive(p, terms_f=p.terms_f, terms_x=p.terms_x, design="indices", masks={}, fd=())
        kw = dict(pv.kwargs)
        ham = pv.hamiltonian
        labels = np.array(kw["subspace_indices"])
        eye = np.eye(p.N)
        vecs = tuple(eye[:, labels == b] for b in range(nb))
        if how == "vectors_and_indices":
            kw["subspace_eigenvectors"] = vecs
        elif how == "solver_and_fd":
            kw["solve_sylvester"] = lambda Y, index: Y
            kw["fully_diagonalize"] = (0,)
        elif how == "pairs_in_hermitian_mode":
            kw.pop("subspace_indices")
            # every subspace as a pair, or pairs mixed with plain bases in any position (a single pair is enough)
            as_pair = [True] * nb if rng.random() < 0.4 else [bool(rng.integers(0, 2)) for _ in range(nb)]
            if not any(as_pair):
                as_pair[int(rng.integers(0, nb))] = True
            kw["subspace_eigenvectors"] = tuple((v, v.copy()) if pr_ else v for v, pr_ in zip(vecs, as_pair))
            kw["hermitian"] = True
            variant = how = "pairs_in_hermitian_mode" + ("" if all(as_pair) else "_mixed")
        elif how == "ndarray_fd_multiblock":
            if nb == 1:
                return dict(verdict="inconclusive", detail="needs >= 2 blocks")
            kw["fully_diagonalize"] = np.zeros((p.sizes[0], p.sizes[0]), bool)
        elif how == "legacy_solver_nonhermitian":
            kw["hermitian"] = False
            kw["solve_sylvester"] = lambda Y: Y
        _twin_is_fine(pv, [], counters)
        _expect_rejection(f"mutually exclusive options ({how})", lambda: block_diagonalize(ham, **kw), counters)
    counters[f"variant_{cls}_{variant}".replace(" ", "_")[:60]] += 1
    return dict(verdict="held", sig=[cls, variant] + matprob.signature(spec), nontrivial=True, counters=dict(counters),
                sample=dict(cls=cls, variant=variant, **matprob.sample_of(p)))


def finalize(c, tier, evaluations, distinct):
    reasons = []
    for cls in CLASSES:
        if c.get(f"class_{cls}", 0) < 30:
            reasons.append(f"class {cls} exercised only {c.get('class_' + cls, 0)} times")
    for k, v in dict(rejected=400, negative_controls=500, vtype_sympy=50, vtype_sparse=50, nonhermitian_symbolic_second_quantised=10, rejected_again_after_history=200).items():
        if c.get(k, 0) < v:
            reasons.append(f"{k} observed only {c.get(k, 0)} (< {v})")
    return reasons
