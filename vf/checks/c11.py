"""C11 - an exception during evaluation leaves the computation consistent and reusable."""
from __future__ import annotations

import itertools
from collections import Counter

import numpy as np

from vf.util import Violation, jsonable, rng_for

ID = "C11"
LEVEL = "fault_enumeration"
RULE = (
    "fault enumeration: for each small problem (2-3 blocks, Hermitian / non-Hermitian, 1-2 parameters, orders up to 2-4) the three "
    "user callbacks are real user-level objects - a lazily evaluated Hamiltonian BlockSeries, a two-argument solve_sylvester "
    "wrapping the library's diagonal solver, and a user matrix class whose __matmul__ is the multiplication callback - all ticking "
    "one invocation counter. For a request target EVERY invocation index of the undisturbed run is used once as injection point, for "
    "each of Exception-subclass / RuntimeError / KeyboardInterrupt / RecursionError (a RuntimeError subclass; one type per case, exhaustive over injection points); sampled double faults "
    "(second fault during recovery). Oracle: the exception reaches the caller (same object, or in the __cause__ chain of the "
    "RuntimeError wrapper), no PENDING marker in any series of the computation (state walk + in-situ quiescence monitor), and every "
    "element of all three outputs re-requested in random order is bitwise equal to the undisturbed computation. A second family "
    "applies the same enumeration to user-defined mutually referencing series with views. Non-trivial: the target needs >= 3 "
    "callback kinds and >= 10 invocations; distinct = (problem parameters, target, exception type)"
)
ASSUMPTIONS = [
    "the undisturbed run of the same problem is the reference; the library is deterministic for a fixed request history (checked by C10)",
    "custom solve_sylvester excludes fully_diagonalize (NotImplementedError by design), so selections are not part of this check",
]
BUDGET = {"quick": dict(cases=300, seconds=300), "thorough": dict(cases=6000, seconds=540)}
CASE_TIMEOUT = 200
MONITORS = {"product": False, "solvers": False}
MONITOR_VERDICTS = ("pending",)


class Inject(Exception):
    pass


EXC = {"Exception": Inject, "RuntimeError": RuntimeError, "KeyboardInterrupt": KeyboardInterrupt, "RecursionError": RecursionError}


class Ctl:
    def __init__(self, fault_at=(), exc=None):
        self.n = 0
        self.fault_at = set(fault_at)
        self.exc = exc
        self.kinds = []
        self.raised = []

    def tick(self, kind):
        k = self.n
        self.n += 1
        self.kinds.append(kind)
        if k in self.fault_at:
            e = self.exc(f"injected at invocation {k} in {kind}")
            self.raised.append(e)
            raise e


class Mat:
    """User-defined matrix element type; its multiplication is a user callback."""

    ctl: Ctl = None

    def __init__(self, a):
        self.a = np.asarray(a)

    def __matmul__(self, o):
        Mat.ctl.tick("mul")
        return Mat(self.a @ o.a)

    def __add__(self, o):
        return Mat(self.a + o.a)

    def __sub__(self, o):
        return Mat(self.a - o.a)

    def __neg__(self):
        return Mat(-self.a)

    def __truediv__(self, k):
        Mat.ctl.tick("div")  # the mini-language's `/ 2`: element arithmetic of the user's type is a callback as well
        return Mat(self.a / k)

    def __mul__(self, k):
        return Mat(self.a * k)

    __rmul__ = __mul__

    def adjoint(self):
        return Mat(self.a.conj().T)


def plan(tier, seed):
    rng = rng_for(11, seed)
    specs = []
    n = BUDGET[tier]["cases"]
    for i in range(n):
        fam = "series" if i % 6 == 5 else "bd"
        specs.append(dict(family=fam, case=int(rng.integers(0, 2**31)), exc=["Exception", "RuntimeError", "KeyboardInterrupt", "RecursionError"][(i % 3) if i % 5 else 3], double=bool(i % 7 == 0), tier=tier))
    return specs


# ---------------------------------------------------------------------------------------------
def _problem(rng, tier="quick"):
    nb = int(rng.integers(2, 4))
    sizes = [int(rng.integers(1, 3)) for _ in range(nb)]
    hermitian = bool(rng.integers(0, 2))
    n_par = int(rng.integers(1, 3))
    max_order = int(rng.integers(2, 5)) if n_par == 1 else 2
    if tier == "quick" and nb == 3:
        max_order = min(max_order, 3)  # the 3-block order-4 cases (~10 s each) are left to the thorough tier
    E = [np.arange(s, dtype=float) * 1.0 + 7.0 * b for b, s in enumerate(sizes)]
    P = {}
    firsts = [tuple(1 if q == k else 0 for q in range(n_par)) for k in range(n_par)]
    for n in firsts + ([(2,) + (0,) * (n_par - 1)] if rng.random() < 0.5 else []):
        for i in range(nb):
            for j in range(nb):
                if hermitian and j < i:
                    continue
                a = rng.integers(-8, 9, size=(sizes[i], sizes[j])) / 8.0
                if hermitian and i == j:
                    a = a + a.T
                P[i, j, n] = a
                if hermitian and i != j:
                    P[j, i, n] = a.T
    return dict(nb=nb, sizes=sizes, hermitian=hermitian, n_par=n_par, max_order=max_order, E=E, P=P)


def _build(ctl, pr):
    from pymablock import block_diagonalize
    from pymablock.block_diagonalization import solve_sylvester_diagonal
    from pymablock.series import BlockSeries, zero

    Mat.ctl = ctl
    nb, E, P, n_par = pr["nb"], pr["E"], pr["P"], pr["n_par"]

    def ev(*index):
        ctl.tick("H")
        i, j, *n = (int(x) for x in index)
        n = tuple(n)
        if not any(n):
            return Mat(np.diag(E[i])) if i == j else zero
        if (i, j, n) in P:
            return Mat(P[i, j, n])
        return zero

    H = BlockSeries(eval=ev, shape=(nb, nb), n_infinite=n_par, name="H")
    base = solve_sylvester_diagonal(tuple(E))

    def solve_sylvester(Y, index):
        ctl.tick("sylv")
        if Y is zero:
            return zero
        return Mat(base(Y.a, index))

    return block_diagonalize(H, solve_sylvester=solve_sylvester, hermitian=pr["hermitian"])


def _val(x):
    from pymablock.series import one, zero

    if x is zero:
        return "zero"
    if x is one:
        return "one"
    return x.a


def _same(a, b):
    if isinstance(a, str) or isinstance(b, str):
        return isinstance(a, str) and isinstance(b, str) and a == b
    return a.shape == b.shape and np.array_equal(a, b)


def _pending(outs):
    from pymablock.series import PENDING

    found = []
    g = getattr(outs[0].eval, "__globals__", {})
    for which in ("series", "linear_operator_series"):
        for name, s in g.get(which, {}).items():
            for k, v in s._data.items():
                if v is PENDING:
                    found.append((which, name, k))
    return found


def _check_propagation(exc_cls, ctl, err):
    injected = ctl.raised[-1] if ctl.raised else None
    if injected is None:
        raise Violation("fault was never injected (harness)")
    if issubclass(exc_cls, RuntimeError):  # RuntimeError and its subclasses (RecursionError) arrive wrapped, chained by __cause__
        if not isinstance(err, RuntimeError):
            raise Violation(f"injected RuntimeError surfaced as {type(err).__name__}")
        cur, ok = err, False
        while cur is not None:
            if cur is injected:
                ok = True
                break
            cur = cur.__cause__
        if not ok:
            raise Violation("the injected RuntimeError is not in the __cause__ chain of what reached the caller")
    elif err is not injected:
        raise Violation(f"injected {exc_cls.__name__} did not reach the caller unchanged (got {type(err).__name__}: {err})")


def _run_bd(spec, counters):
    rng = rng_for(11, spec["case"])
    pr = _problem(rng, spec.get("tier", "quick"))
    nb, n_par = pr["nb"], pr["n_par"]
    orders = [o for o in itertools.product(range(pr["max_order"] + 1), repeat=n_par) if sum(o) <= pr["max_order"]]
    universe = [(s, i, j) + n for s in range(3) for i in range(nb) for j in range(nb) for n in orders]
    exc_cls = EXC[spec["exc"]]
    # canonical values from an undisturbed computation
    ctl = Ctl()
    outs = _build(ctl, pr)
    canon = {r: _val(outs[r[0]][r[1:]]) for r in universe}
    # target and its invocation range in a fresh computation
    top = [r for r in universe if sum(r[3:]) == pr["max_order"]]
    target = top[int(rng.integers(0, len(top)))]
    # the disturbed request: one element, or several at once (all orders 0..n of the first parameter - this includes the
    # data-backed zeroth-order start values - or all blocks at the target order)
    form = str(rng.choice(["el", "el", "orders", "blocks"]))
    counters[f"faulted_request_{form}"] += 1

    def request(outs_):
        ser = outs_[target[0]]
        if form == "orders":
            return ser[(target[1], target[2], slice(None, target[3] + 1)) + tuple(target[4:])]
        if form == "blocks":
            return ser[(slice(None), slice(None)) + tuple(target[3:])]
        return ser[target[1:]]

    ctl = Ctl()
    outs = _build(ctl, pr)
    n_def = ctl.n
    request(outs)
    N = ctl.n
    kinds = Counter(ctl.kinds[n_def:])
    counters["injection_points"] += N - n_def
    for kname, v in kinds.items():
        counters[f"callbacks_{kname}"] += v
    # faults at definition time as well (Hamiltonian zeroth order evaluation)
    for k in range(0, N):
        ctl = Ctl([k], exc_cls)
        try:
            outs = _build(ctl, pr)
        except BaseException as err:  # noqa: BLE001
            if k >= n_def:
                raise Violation(f"definition raised although the fault index {k} lies in the request phase")
            _check_propagation(exc_cls, ctl, err)
            counters["define_time_faults"] += 1
            continue
        try:
            request(outs)
        except BaseException as err:  # noqa: BLE001
            _check_propagation(exc_cls, ctl, err)
        else:
            raise Violation(f"fault injected at invocation {k} ({ctl.kinds[k] if k < len(ctl.kinds) else '?'}) did not reach the caller")
        counters["faults_injected"] += 1
        counters[f"fault_in_{ctl.kinds[k]}"] += 1
        left = _pending(outs)
        if left:
            raise Violation(f"PENDING left behind after {spec['exc']} at invocation {k} ({ctl.kinds[k]}): {left[:3]}")
        order = rng.permutation(len(universe))
        if spec["double"] and k % 5 == 0:
            # second fault somewhere in the recovery run
            ctl.fault_at = {ctl.n + int(rng.integers(0, max(1, N - n_def)))}
            ctl.exc = exc_cls
            try:
                for q in order:
                    r = universe[q]
                    outs[r[0]][r[1:]]
            except BaseException as err:  # noqa: BLE001
                _check_propagation(exc_cls, ctl, err)
                counters["double_faults"] += 1
                left = _pending(outs)
                if left:
                    raise Violation(f"PENDING left behind after a second fault: {left[:3]}")
            ctl.fault_at = set()
        for q in order:
            r = universe[q]
            try:
                v = _val(outs[r[0]][r[1:]])
            except BaseException as err:  # noqa: BLE001
                raise Violation(
                    f"after {spec['exc']} at invocation {k} ({ctl.kinds[k]}) while computing {target}, request {r} raised {type(err).__name__}: {err}"
                )
            if not _same(v, canon[r]):
                raise Violation(f"after {spec['exc']} at invocation {k} ({ctl.kinds[k]}) while computing {target}, element {r} differs from the undisturbed computation")
            counters["recovered_elements"] += 1
    nontrivial = len(kinds) >= 3 and (N - n_def) >= 10
    sample = dict(blocks=pr["sizes"], hermitian=pr["hermitian"], n_par=n_par, max_order=pr["max_order"], target=list(map(int, target)), exc=spec["exc"],
                  invocations=int(N - n_def), kinds=dict(kinds))
    sig = ["bd", pr["sizes"], pr["hermitian"], n_par, pr["max_order"], list(map(int, target)), spec["exc"]]
    return nontrivial, sig, sample


# ---------------------------------------------------------------------------------------------
def _series_family(ctl, rng_seed):
    """Three user series referencing each other (through elements, slices and a finite-index view)."""
    from pymablock.series import BlockSeries, cauchy_dot_product, zero

    rng = rng_for(11, rng_seed, 5)
    vals = {}

    def base(*idx):
        ctl.tick("base")
        idx = tuple(int(i) for i in idx)
        if idx not in vals:
            # value determined by the index alone (not by the evaluation order)
            vals[idx] = rng_for(11, rng_seed, 9, *idx).integers(-4, 5, size=(2, 2)) / 4.0 if sum(idx) % 5 else zero
        return vals[idx]

    A = BlockSeries(eval=base, shape=(2, 2), n_infinite=1, name="A")
    B = BlockSeries(shape=(2, 2), n_infinite=1, name="B")
    C = BlockSeries(shape=(2, 2), n_infinite=1, name="C")
    AB = cauchy_dot_product(A, B)
    viewA = A[0, :]

    def b_eval(i, j, n):
        ctl.tick("b")
        if n == 0:
            return np.eye(2) if i == j else zero
        prev = B[i, j, n - 1]
        a = viewA[j, n]  # view element A[0, j, n]
        out = np.zeros((2, 2)) if prev is zero else prev * 0.5
        return out + (0 if a is zero else a)

    def c_eval(i, j, n):
        ctl.tick("c")
        sl = AB[i, j, : n + 1]  # slice request: several elements at once
        tot = np.zeros((2, 2))
        for x in sl.compressed() if hasattr(sl, "compressed") else sl:
            tot = tot + x
        b = B[j, i, n]
        return tot + (0 if b is zero else b.T)

    B.eval, C.eval = b_eval, c_eval
    return A, B, C, AB


def _run_series(spec, counters):
    rng = rng_for(11, spec["case"])
    exc_cls = EXC[spec["exc"]]
    universe = [(s, i, j, n) for s in range(4) for i in range(2) for j in range(2) for n in range(4)]
    ctl = Ctl()
    fam = _series_family(ctl, spec["case"])
    canon = {}
    for r in universe:
        v = fam[r[0]][r[1:]]
        canon[r] = "zero" if isinstance(v, type(None)) else v
    target = (2, int(rng.integers(0, 2)), int(rng.integers(0, 2)), 3)
    ctl = Ctl()
    fam = _series_family(ctl, spec["case"])
    fam[target[0]][target[1:]]
    N = ctl.n
    counters["injection_points"] += N
    from pymablock.series import PENDING, zero

    for k in range(N):
        ctl = Ctl([k], exc_cls)
        fam = _series_family(ctl, spec["case"])
        try:
            fam[target[0]][target[1:]]
        except BaseException as err:  # noqa: BLE001
            _check_propagation(exc_cls, ctl, err)
        else:
            raise Violation(f"series family: fault at invocation {k} did not reach the caller")
        counters["faults_injected"] += 1
        counters["series_family_faults"] += 1
        for s in fam:
            for idx, v in s._data.items():
                if v is PENDING:
                    raise Violation(f"series family: PENDING left in {s.name} at {idx} after a fault at invocation {k}")
        for q in rng.permutation(len(universe)):
            r = universe[q]
            try:
                v = fam[r[0]][r[1:]]
            except BaseException as err:  # noqa: BLE001
                raise Violation(f"series family: after a fault at invocation {k}, request {r} raised {type(err).__name__}: {err}")
            c = canon[r]
            same = (v is c) if (v is zero or c is zero) else np.array_equal(v, c)
            if not same:
                raise Violation(f"series family: after a fault at invocation {k}, element {r} differs from the undisturbed value")
            counters["recovered_elements"] += 1
    return N >= 10, ["series", list(target), spec["exc"], spec["case"] % 50], dict(family="series", target=list(target), exc=spec["exc"], invocations=N)


def run_case(spec):
    counters = Counter()
    if spec["family"] == "bd":
        nontrivial, sig, sample = _run_bd(spec, counters)
    else:
        nontrivial, sig, sample = _run_series(spec, counters)
    return dict(verdict="held", sig=sig, nontrivial=bool(nontrivial), counters=dict(counters), sample=jsonable(sample))


def finalize(c, tier, evaluations, distinct):
    reasons = []
    need = dict(faults_injected=2000, fault_in_H=100, fault_in_sylv=100, fault_in_mul=500, recovered_elements=20000,
                define_time_faults=50, double_faults=5, series_family_faults=200)
    for k, v in need.items():
        if c.get(k, 0) < v:
            reasons.append(f"{k} observed only {c.get(k, 0)} times (< {v})")
    return reasons


def extra_coverage(c, evaluations):
    return {"exhaustive": True, "exhaustive_scope": "every callback invocation index of each (problem, target, exception type) case; problems and targets themselves are sampled"}
