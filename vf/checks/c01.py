"""C01 - Hermitian: U^dagger H U equals H_tilde on kept elements, zero on eliminated ones."""
from vf import oracles
from vf.checks import _herm
from vf.checks._herm import BUDGET, CASE_TIMEOUT, MONITORS, MONITOR_VERDICTS  # noqa: F401

ID = "C01"
LEVEL = "exploration"
RULE = (
    "seeded random perturbative problems (1-4 blocks of size 1-4, 1-3 parameters, optional second-order terms, "
    "dense/sparse/exact-sympy values, real/complex, selection none / fully_diagonalize subsets / symmetric masks, "
    "designation by indices / eigenvectors / pre-split blocks, list/dict containers); every element of H_tilde, U, U^dagger "
    "up to the order bound is requested in random order and (U^dagger H U)_n is recomputed densely from the returned U and the "
    "harness's own H. A case is non-trivial when the perturbation couples at least one eliminated pair and the order bound is >= 2; "
    "distinct = distinct structural signature (blocks, sizes, parameters, value type, selection, designation, container, degeneracy, order)"
)
ASSUMPTIONS = _herm.ASSUMPTIONS


def plan(tier, seed):
    return _herm.plan(tier, seed, 1)


def _oracle(p, Ht, U, G):
    n = oracles.check_transform(p, Ht, U, G)
    return {"orders_checked": n}


def run_case(spec):
    return _herm.run(spec, _oracle)


def finalize(c, tier, evaluations, distinct):
    return _herm.finalize_common(c, tier, evaluations, distinct)
