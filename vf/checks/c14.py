"""C14 - all input formats and eigenbases give the same result."""
from __future__ import annotations

import itertools
from collections import Counter
from fractions import Fraction

import numpy as np
import sympy
from scipy import sparse

from vf import matprob, oracles
from vf.util import GR, Violation, adj, gr_array, gr_zeros, jsonable, rng_for, to_dense

ID = "C14"
LEVEL = "exploration"
RULE = (
    "one generated problem (exact dyadic-rational terms, so every value type represents it exactly) is encoded in every admissible "
    "way and run through the real block_diagonalize: list / dict with order tuples / dict with monomial keys (random symbol names: "
    "order = sorted names) / sympy matrix polynomial in symbols (explicit `symbols` in a permuted order) / sympy matrix with analytic "
    "dependences sin, exp, cos-1, x/(1+x) (oracle: the harness's own Taylor coefficients fed as a dict) / pre-split nested block "
    "lists / user BlockSeries (scalar and pre-split); dense / sparse / sympy values; subspace_indices / identity-column eigenvectors "
    "(dense and sparse) / a random unitary or biorthogonal eigenbasis with the correspondingly rotated Hamiltonian; user-supplied two-argument and legacy one-argument Sylvester solvers equivalent to the built-in one. All outputs "
    "(H_tilde, U, U_inv, every block, every order up to the bound) must agree with the canonical encoding (indices + dict + dense): "
    "exactly between exact encodings, to 1e-9 x size of terms otherwise. Separately operator_to_BlockSeries is compared block by "
    "block with the dense L_i^dagger A R_j. Non-trivial: perturbation couples an eliminated pair, order bound >= 2; distinct = "
    "structural signature"
)
ASSUMPTIONS = [
    "sympy differentiation is trusted for the harness's own Taylor coefficients of the scalar functions",
    "float encodings are compared to 1e-9 x size of terms; exact encodings with ==",
]
BUDGET = {"quick": dict(cases=130, seconds=300), "thorough": dict(cases=2400, seconds=540)}
CASE_TIMEOUT = 200
MONITORS = {"poison": True, "product": False, "solvers": False}
MONITOR_VERDICTS = ("fp", "nonfinite", "write")


def plan(tier, seed):
    rng = rng_for(14, seed)
    specs = []
    for i in range(BUDGET[tier]["cases"]):
        if i % 5 == 4:
            specs.append(dict(kind="projection", case=int(rng.integers(0, 2**31))))
            continue
        spec = matprob.gen_spec(rng, "quick", hermitian=bool(rng.random() < 0.7), vtype="sympy", design="indices", container="dict", complex=False)
        while sum(spec["sizes"]) > 6:
            spec["sizes"][int(np.argmax(spec["sizes"]))] -= 1
        spec["sizes"] = [s for s in spec["sizes"] if s > 0]
        spec["complex"] = bool(rng.random() < 0.3) and sum(spec["sizes"]) <= 4
        spec["offset"] = 0
        spec = matprob.normalise(spec)
        spec["max_total"] = min(spec["max_total"], 2 if spec["n_par"] > 1 else 3)
        spec["kind"] = "formats"
        spec["rs"] = int(rng.integers(0, 2**31))
        specs.append(spec)
    return specs


def _floats(D):
    return {n: (np.array([[complex(x) for x in row] for row in M], dtype=complex) if M.dtype == object else M) for n, M in D.items()}


def _run(p, orders=None):
    out = matprob.call_library(p)
    return matprob.extract(out, p, orders=orders)


_CUR = {"p": None}  # the canonical problem of the running case (for the float comparisons' noise floor)


def _compare(label, ref, got, orders, exact_both, mag, order_map=None):
    names = ("H_tilde", "U", "U_inv")
    for name, A, B in zip(names, ref, got):
        for n in orders:
            m = order_map(n) if order_map else n
            if exact_both:
                D = A[n] - B[m]
                for idx in np.ndindex(*D.shape):
                    if D[idx] != 0:
                        raise Violation(f"encoding '{label}': {name}_{n} differs exactly from the canonical encoding at {idx}")
            else:
                a = _floats({0: A[n]})[0]
                b = _floats({0: B[m]})[0]
                err = float(np.max(np.abs(a - b), initial=0.0))
                floor = oracles.noise_floor(_CUR["p"], n, even_if_exact=True) if _CUR.get("p") is not None else 0.0
                if not err <= 1e-9 * max(1.0, mag) + floor:
                    raise Violation(f"encoding '{label}': {name}_{n} differs from the canonical encoding by {err:.3e}")


class _Subs:
    """View of a series whose symbolic elements have the perturbation symbols set to 1 (for sympy-matrix
    input the library returns coefficient x monomial by design)."""

    def __init__(self, series, subs):
        self.series, self.subs = series, subs

    def __getitem__(self, item):
        v = self.series[item]
        return v.subs(self.subs) if isinstance(v, (sympy.MatrixBase, sympy.Basic)) else v


def _extract_raw(outs, p, orders, exact, subs=None):
    res = []
    for s in range(3):
        ser = _Subs(outs[s], subs) if subs else outs[s]
        res.append({n: matprob.assemble(ser, n, p, exact) for n in orders})
    return tuple(res)


def _call(ham, kwargs):
    from pymablock import block_diagonalize

    try:
        return block_diagonalize(ham, **kwargs)
    except Exception as e:  # noqa: BLE001
        raise Violation(f"block_diagonalize raised {type(e).__name__}: {e} on a supported encoding")


def _sym(g):
    return matprob._gr_to_sympy(g)


def _sym_matrix(M):
    return matprob.gr_to_sympy_matrix(M)


def run_formats(spec):
    from pymablock.series import BlockSeries, zero

    rng = rng_for(14, spec["rs"])
    p = matprob.build(spec)  # exact base problem, design indices, dict container, sympy values
    _CUR["p"] = p
    counters = Counter()
    orders = p.orders
    n_par = p.n_par
    z = (0,) * n_par
    # canonical: indices + dict + dense
    canon_p = matprob.derive(p, terms_f=p.terms_f, terms_x=p.terms_x, vtype="dense", design="indices", container="dict")
    ref_f = _run(canon_p)
    mag = max(oracles.magnitude(D) for D in ref_f)
    ref_x = _run(p)  # exact reference (sympy, indices, dict)
    _compare("sympy/indices/dict", ref_f, ref_x, orders, False, mag)
    counters["encodings"] += 2
    first_order_only = set(p.terms_f) - {z} == {tuple(int(x) for x in row) for row in np.eye(n_par, dtype=int)}
    variants = []
    for vtype in ("dense", "sparse", "sympy"):
        for design in ("indices", "blocks", "vectors"):
            for container in ("dict", "list"):
                if container == "list" and not first_order_only:
                    continue
                if (vtype, design, container) in (("dense", "indices", "dict"), ("sympy", "indices", "dict")):
                    continue
                if vtype == "sympy" and design == "vectors" and (p.N > 5 or spec["complex"]):
                    continue
                variants.append((vtype, design, container))
    pick = [variants[int(k)] for k in rng.permutation(len(variants))[:5]]
    for vtype, design, container in pick:
        q = matprob.derive(p, terms_f=p.terms_f, terms_x=p.terms_x, vtype=vtype, design=design, container=container, enc_salt=int(rng.integers(1, 1000)))
        got = _run(q)
        if vtype == "sympy":
            _compare(f"{vtype}/{design}/{container}", ref_x, got, orders, True, mag)
        else:
            _compare(f"{vtype}/{design}/{container}", ref_f, got, orders, False, mag)
        counters["encodings"] += 1
        counters[f"enc_{vtype}_{design}_{container}"] += 1

    idx_kwargs = dict(canon_p.kwargs)
    lab = canon_p.hamiltonian  # dict of dense matrices in the lab ordering used with subspace_indices
    # --- identity-column eigenvectors instead of subspace_indices
    labels = np.array(idx_kwargs["subspace_indices"])
    eye = np.eye(p.N)
    for kind in ("dense", "sparse"):
        vecs = []
        for b in range(len(p.sizes)):
            cols = eye[:, labels == b]
            vecs.append(cols if kind == "dense" else sparse.csr_array(cols))
        kw = {k: v for k, v in idx_kwargs.items() if k != "subspace_indices"}
        kw["subspace_eigenvectors"] = tuple(vecs)
        outs = _call(dict(lab), kw)
        _compare(f"identity eigenvectors ({kind})", ref_f, _extract_raw(outs, p, orders, False), orders, False, mag)
        counters["encodings"] += 1
        counters["enc_identity_vectors"] += 1

    # --- user BlockSeries: scalar series of full matrices + indices, and pre-split
    log = []

    def ev_full(*n):
        n = tuple(int(x) for x in n)
        log.append(n)
        return lab.get(n, zero)

    Hs = BlockSeries(eval=ev_full, shape=(), n_infinite=n_par, name="H_user")
    outs = _call(Hs, idx_kwargs)
    _compare("user BlockSeries (scalar) + subspace_indices", ref_f, _extract_raw(outs, p, orders, False), orders, False, mag)
    counters["encodings"] += 1
    counters["enc_blockseries"] += 1
    blocks_p = matprob.derive(p, terms_f=p.terms_f, terms_x=p.terms_x, vtype="dense", design="blocks", container="dict")
    nested = blocks_p.hamiltonian

    def ev_blocks(*index):
        i, j, *n = (int(x) for x in index)
        t = nested.get(tuple(n))
        if t is None:
            return zero
        blk = t[i][j]
        return zero if not np.any(blk) else blk

    nb = len(p.sizes)
    Hb = BlockSeries(eval=ev_blocks, shape=(nb, nb), n_infinite=n_par, name="H_user_blocks")
    kw = {k: v for k, v in blocks_p.kwargs.items()}
    outs = _call(Hb, kw)
    _compare("user BlockSeries (pre-split)", ref_f, _extract_raw(outs, p, orders, False), orders, False, mag)
    counters["encodings"] += 1

    # --- user-supplied Sylvester solvers (two-argument form; legacy one-argument form for two Hermitian blocks)
    if not p.fd and not p.masks and len(p.sizes) >= 2:
        import warnings as _w

        from pymablock.series import zero as _zero

        labels_ = np.array(idx_kwargs["subspace_indices"])
        Elab = np.real_if_close(np.diag(np.asarray(lab[z].toarray() if sparse.issparse(lab[z]) else lab[z])))
        Eb = [Elab[labels_ == b] for b in range(len(p.sizes))]

        def solver2(Y, index):
            if Y is _zero:
                return _zero
            Yd = Y.toarray() if sparse.issparse(Y) else np.asarray(Y)
            return Yd / (Eb[index[0]].reshape(-1, 1) - Eb[index[1]].reshape(1, -1))

        outs = _call(dict(lab), dict(idx_kwargs, solve_sylvester=solver2))
        _compare("custom two-argument solve_sylvester", ref_f, _extract_raw(outs, p, orders, False), orders, False, mag)
        counters["encodings"] += 1
        counters["enc_custom_solver"] += 1
        if len(p.sizes) == 2 and p.hermitian:
            def solver1(Y):
                Yd = Y.toarray() if sparse.issparse(Y) else np.asarray(Y)
                return Yd / (Eb[0].reshape(-1, 1) - Eb[1].reshape(1, -1))

            with _w.catch_warnings():
                _w.simplefilter("ignore", DeprecationWarning)
                outs = _call(dict(lab), dict(idx_kwargs, solve_sylvester=solver1))
            _compare("legacy one-argument solve_sylvester", ref_f, _extract_raw(outs, p, orders, False), orders, False, mag)
            counters["encodings"] += 1
            counters["enc_legacy_solver"] += 1

    # --- symbolic encodings (exact): monomial keys, polynomial matrix, analytic matrix
    names_pool = ["alpha", "beta", "gamma", "delta", "eps", "kx", "ky", "mu", "nu", "zeta"]
    chosen = sorted(str(x) for x in rng.choice(names_pool, size=n_par, replace=False))
    syms = [sympy.Symbol(nm, real=True) for nm in chosen]  # sorted by name == parameter order
    labx = p.hamiltonian  # dict {order: sympy matrix} in lab ordering (indices design)
    kw_sym = dict(p.kwargs)

    def monomial(n):
        m = sympy.Integer(1)
        for s, k in zip(syms, n):
            m = m * s**k
        return m

    mono = {monomial(n): M for n, M in labx.items()}
    keys = list(mono)
    mono = {k: mono[k] for k in [keys[int(q)] for q in rng.permutation(len(keys))]}  # insertion order must not matter
    outs = _call(mono, kw_sym)
    # (the outputs' dimension_names are metadata, not part of the property: only counted)
    counters["monomial_dimension_names_match"] += int(tuple(outs[0].dimension_names) == tuple(syms))
    _compare("dict with monomial keys", ref_x, _extract_raw(outs, p, orders, True), orders, True, mag)
    counters["encodings"] += 1
    counters["enc_monomial_keys"] += 1

    # polynomial sympy matrix with explicit symbols in a permuted order
    poly = sympy.zeros(p.N, p.N)
    for n, M in labx.items():
        poly = poly + monomial(n) * M
    if set(syms) - poly.free_symbols:
        # a perturbation that vanishes identically: the library (documented) refuses symbols absent from the matrix
        counters["symbolic_matrix_skipped_vanishing_term"] += 1
        nontrivial = oracles.perturbation_couples_eliminated(p) and spec["max_total"] >= 2
        return dict(verdict="held", sig=matprob.signature(spec), nontrivial=nontrivial, counters=dict(counters), sample=matprob.sample_of(p))
    perm = [int(q) for q in rng.permutation(n_par)]
    sym_arg = [syms[k] for k in perm]
    outs = _call(poly, dict(kw_sym, symbols=sym_arg if n_par > 1 or rng.random() < 0.5 else sym_arg[0]))
    # library index k corresponds to symbol sym_arg[k] = parameter perm[k]

    def to_lib(n):
        return tuple(n[perm[k]] for k in range(n_par))

    lib_orders = [to_lib(n) for n in orders]
    got = _extract_raw(outs, p, lib_orders, True, subs={sy: 1 for sy in syms})
    _compare("sympy matrix polynomial with symbols=" + str(sym_arg), ref_x, got, orders, True, mag, order_map=to_lib)
    counters["encodings"] += 1
    counters["enc_sympy_polynomial"] += 1

    # analytic dependence: lambda_k -> f_k(lambda_k); only when all terms are single-parameter powers or first order
    funcs = [
        lambda x: sympy.sin(x),
        lambda x: sympy.exp(x) - 1,
        lambda x: x / (1 + x),
        lambda x: sympy.cos(x) - 1 + x,
        lambda x: sympy.log(1 + x),
    ]
    fk = [funcs[int(q)] for q in rng.integers(0, len(funcs), size=n_par)]
    analytic = sympy.zeros(p.N, p.N)
    for n, M in labx.items():
        coeff = sympy.Integer(1)
        for s, k, f in zip(syms, n, fk):
            coeff = coeff * f(s) ** k
        analytic = analytic + coeff * M
    # harness Taylor coefficients: coefficient of prod s_k^{m_k} in prod f_k(s_k)^{n_k}
    max_total = spec["max_total"]
    series1 = []
    for s, f in zip(syms, fk):
        ser = {}
        for k in range(0, max_total + 1):
            expr = sympy.series(f(s) ** k, s, 0, max_total + 1).removeO() if k else sympy.Integer(1)
            poly_k = sympy.Poly(expr, s)
            ser[k] = {int(m[0]): c for m, c in poly_k.terms()}
        series1.append(ser)
    tay_x = {}
    for n, M in p.terms_x.items():
        per_axis = [series1[a].get(n[a], {0: 1}) if n[a] else {0: sympy.Integer(1)} for a in range(n_par)]
        for combo in itertools.product(*[list(d.items()) for d in per_axis]):
            m = tuple(int(c[0]) for c in combo)
            if sum(m) > max_total:
                continue
            coef = sympy.Integer(1)
            for c in combo:
                coef = coef * c[1]
            if coef == 0:
                continue
            g = GR.of(sympy.nsimplify(coef, rational=True))
            add = M.copy()
            for idx in np.ndindex(*M.shape):
                add[idx] = M[idx] * g
            tay_x[m] = tay_x[m] + add if m in tay_x else add
    tay_f = {m: np.array([[complex(x) for x in row] for row in M], dtype=complex) for m, M in tay_x.items()}
    tq = matprob.derive(p, terms_f=tay_f, terms_x=tay_x, vtype="sympy", design="indices", container="dict")
    ref_t = _run(tq)
    outs = _call(analytic, dict(kw_sym, symbols=list(syms)))
    got = _extract_raw(outs, p, orders, True, subs={sy: 1 for sy in syms})
    _compare("sympy matrix with analytic dependences vs harness Taylor coefficients", ref_t, got, orders, True, mag)
    counters["encodings"] += 2
    counters["enc_sympy_analytic"] += 1
    nontrivial = oracles.perturbation_couples_eliminated(p) and spec["max_total"] >= 2
    return dict(verdict="held", sig=matprob.signature(spec), nontrivial=nontrivial, counters=dict(counters), sample=matprob.sample_of(p))


def run_projection(spec):
    """operator_to_BlockSeries returns exactly the blocks L_i^dagger A R_j."""
    from pymablock.block_diagonalization import operator_to_BlockSeries
    from pymablock.series import zero

    rng = rng_for(14, spec["case"])
    counters = Counter()
    N = int(rng.integers(3, 8))
    nb = int(rng.integers(1, 4))
    cuts = sorted(int(x) for x in rng.choice(np.arange(1, N), size=min(nb - 1, N - 1), replace=False))
    bounds = [0] + cuts + [N]
    hermitian = bool(rng.integers(0, 2))
    cplx = bool(rng.integers(0, 2))
    n_par = int(rng.integers(1, 3))
    Q = np.asarray(matprob._cayley_unitary(rng, N, cplx, False), complex)
    if hermitian:
        R, L = Q, Q
    else:
        T = np.triu(rng.integers(-2, 3, size=(N, N)), 1) / 2.0
        R = Q @ (np.eye(N) + T)
        L = np.linalg.inv(R).conj().T
    if not cplx:
        R, L = R.real, L.real
    A = {}
    for n in itertools.product(range(2), repeat=n_par):
        M = rng.integers(-8, 9, size=(N, N)) / 8.0 + (1j * rng.integers(-8, 9, size=(N, N)) / 8.0 if cplx else 0)
        if hermitian:
            M = M + M.conj().T
        if rng.random() < 0.2 and any(n):
            continue
        if rng.random() < 0.45:
            M = np.diag(np.diag(M))  # a term that is diagonal in the input basis (on-site potential)
            counters["projection_diagonal_terms"] += 1
        A[n] = M
    if (0,) * n_par not in A:
        A[(0,) * n_par] = np.eye(N)
    vt = str(rng.choice(["dense", "sparse"]))
    enc = {n: (sparse.csr_array(M) if vt == "sparse" else M) for n, M in A.items()}
    vecs = []
    sparse_vecs = bool(rng.random() < 0.5)  # the eigenvector matrices themselves as scipy sparse arrays
    counters["projection_sparse_eigenvectors"] += int(sparse_vecs)
    wrap = sparse.csr_array if sparse_vecs else (lambda x: x)
    for a, b in zip(bounds[:-1], bounds[1:]):
        vecs.append(wrap(R[:, a:b]) if hermitian else (wrap(R[:, a:b]), wrap(L[:, a:b])))
    try:
        S = operator_to_BlockSeries(enc, name="A", subspace_eigenvectors=tuple(vecs), hermitian=hermitian)
    except Exception as e:  # noqa: BLE001
        raise Violation(f"operator_to_BlockSeries raised {type(e).__name__}: {e}")
    nbk = len(bounds) - 1
    reqs = [(i, j, n) for i in range(nbk) for j in range(nbk) for n in itertools.product(range(2), repeat=n_par)]
    for q in rng.permutation(len(reqs)):
        i, j, n = reqs[q]
        got = S[(i, j) + n]
        want = (L[:, bounds[i]:bounds[i + 1]].conj().T @ A[n] @ R[:, bounds[j]:bounds[j + 1]]) if n in A else None
        if want is None or not np.any(np.abs(want) > 1e-12):
            if got is not zero and np.any(np.abs(to_dense(got, (1, 1))) > 1e-10):
                raise Violation(f"operator_to_BlockSeries block {(i, j, n)} should vanish")
            counters["projection_blocks"] += 1
            continue
        g = to_dense(got, want.shape)
        if g.shape != want.shape or np.max(np.abs(g - want)) > 1e-10 * max(1.0, np.abs(want).max()):
            raise Violation(f"operator_to_BlockSeries block {(i, j, n)} differs from L_i^dagger A R_j")
        counters["projection_blocks"] += 1
    counters["projection_cases"] += 1
    counters["projection_biorthogonal"] += int(not hermitian)
    return dict(verdict="held", sig=["projection", N, nbk, hermitian, cplx, n_par, vt], nontrivial=nbk >= 2,
                counters=dict(counters), sample=dict(kind="projection", N=N, blocks=bounds, hermitian=hermitian, complex=cplx, values=vt))


def run_case(spec):
    if spec["kind"] == "projection":
        return run_projection(spec)
    return run_formats(spec)


def finalize(c, tier, evaluations, distinct):
    reasons = []
    need = dict(encodings=600, enc_monomial_keys=40, enc_sympy_polynomial=40, enc_sympy_analytic=40, enc_identity_vectors=80,
                enc_blockseries=40, enc_custom_solver=10, projection_cases=15, projection_biorthogonal=5, projection_blocks=100)
    for k, v in need.items():
        if c.get(k, 0) < v:
            reasons.append(f"{k} observed only {c.get(k, 0)} (< {v})")
    if sum(v for k, v in c.items() if k.startswith("enc_") and "vectors" in k) < 20:
        reasons.append("fewer than 20 eigenvector-designation encodings")
    return reasons
