"""C10 - results independent of evaluation order/history; returned values and inputs not mutated."""
from __future__ import annotations

import itertools
from collections import Counter

import numpy as np
import sympy
from scipy import sparse
from scipy.sparse.linalg import LinearOperator

from vf import matprob
from vf.util import Violation, jsonable, rng_for

ID = "C10"
LEVEL = "exploration"
RULE = (
    "for a generated problem the canonical value of every element of H_tilde, U, U_inv (all blocks, all orders up to the bound) is "
    "obtained from a FRESH computation that requests only that element. Then request histories are executed on 1-3 computations "
    "built from the SAME input objects (interleaved): scalar requests, slice and list requests over orders and blocks, repeats, "
    "length <= 30; every returned value is compared BIT FOR BIT with the canonical one; after every request all values handed out "
    "earlier and, at the end, all input objects (arrays, sparse buffers, lists, dicts, masks, eigenvectors) are re-compared with "
    "byte snapshots; all handed-out buffers are made read-only so an in-place write raises at the faulting line. thorough adds "
    "exhaustive ordered pairs (x then y) over the whole universe of small problems. Modes: dense, sparse, exact sympy, full / "
    "selective diagonalisation, 2-3 parameters, non-Hermitian, implicit (direct solver), `taylor` (one sympy Matrix in two symbols with monomials of unequal powers x**2*y, x*y**2, orders up to total 3: every term is a Taylor coefficient reached through cached lower derivatives). Non-trivial: history with >= 5 requests "
    "touching >= 2 output series with at least one intermediate-term deletion observed; distinct = (structural signature, history kind)"
)
ASSUMPTIONS = [
    "bitwise comparison: the library is deterministic for a fixed request; 'equal to 1e-12 but not bitwise' is counted separately as ulp_diff and is not a violation (observed 0)",
    "LinearOperator outputs (implicit mode) are compared through their dense action on the identity",
]
BUDGET = {"quick": dict(cases=900, seconds=300), "thorough": dict(cases=12000, seconds=560)}
CASE_TIMEOUT = 240
MONITORS = {"poison": True, "solvers": False, "product": False}
MONITOR_VERDICTS = ("pending", "write")


def plan(tier, seed):
    rng = rng_for(10, seed)
    specs = []
    n = BUDGET[tier]["cases"]
    kinds = ["history", "history", "history", "interleaved", "implicit"]
    n_pairs = 0 if tier == "quick" else 4000
    for i in range(n - n_pairs):
        kind = kinds[i % len(kinds)]
        if kind == "implicit":
            specs.append(dict(kind=kind, case=int(rng.integers(0, 2**31))))
            continue
        spec = matprob.gen_spec(rng, "quick", hermitian=bool(rng.random() < 0.7))
        # keep the universe small enough for one fresh computation per element
        spec["sizes"] = spec["sizes"][:3]
        spec = matprob.normalise(spec)
        spec["max_total"] = min(spec["max_total"], 3 if spec["n_par"] == 1 else 2)
        if spec["vtype"] == "sympy":
            spec["max_total"] = min(spec["max_total"], 2)
        spec["kind"] = kind
        spec["hist"] = int(rng.integers(0, 2**31))
        specs.append(spec)
    # exhaustive ordered pairs: each case = one small problem and one first request x, all second requests y
    pair_problems = []
    while len(pair_problems) * 40 < n_pairs:
        spec = matprob.gen_spec(rng, "quick", hermitian=bool(rng.random() < 0.7), vtype=str(rng.choice(["dense", "sparse"])))
        spec["sizes"] = spec["sizes"][:2] if len(spec["sizes"]) > 2 and rng.random() < 0.5 else spec["sizes"][:3]
        spec = matprob.normalise(spec)
        spec["max_total"] = 2
        pair_problems.append(spec)
    for spec in pair_problems:
        for x in range(40):
            s2 = dict(spec)
            s2.update(kind="pairs", x=x)
            specs.append(s2)
            if len(specs) >= n:
                break
        if len(specs) >= n:
            break
    # symbolic Taylor expansion of one sympy Matrix in two symbols with monomials of unequal powers (x**2*y, x*y**2):
    # its own random stream, inserted at regular positions so that the rest of the plan is unchanged
    rng_t = rng_for(10, seed, 7)
    specs_t = [dict(kind="taylor", case=int(rng_t.integers(0, 2**31))) for _ in range(max(1, n // 20))]
    if n_pairs:
        # exhaustive pairs and random histories interleaved: on a loaded machine the time budget then cuts both alike
        pairs = [sp for sp in specs if sp.get("kind") == "pairs"]
        others = [sp for sp in specs if sp.get("kind") != "pairs"]
        specs = []
        while pairs or others:  # interleaved 1 : 2, so that any cut-off leaves both kinds covered
            specs += pairs[:1] + others[:2]
            pairs, others = pairs[1:], others[2:]
    step = max(1, len(specs) // len(specs_t))
    for k, sp in enumerate(specs_t):
        specs.insert(min(len(specs), k * (step + 1) + 3), sp)
    return specs


# ---------------------------------------------------------------------------------------------
def snapshot(obj):
    if isinstance(obj, np.ndarray):
        if obj.dtype == object:
            return ("objarr", obj.shape, tuple(snapshot(x) for x in obj.flat))
        return ("nd", str(obj.dtype), obj.shape, obj.tobytes())
    if sparse.issparse(obj):
        c = obj.tocoo()
        return ("sp", obj.format, obj.shape, str(obj.dtype), c.row.tobytes(), c.col.tobytes(), c.data.tobytes(), obj.nnz)
    if isinstance(obj, (sympy.MatrixBase, sympy.Basic)):
        return ("sym", sympy.srepr(obj))
    if isinstance(obj, dict):
        return ("dict", tuple((repr(k), snapshot(v)) for k, v in obj.items()))
    if isinstance(obj, (list, tuple)):
        return (type(obj).__name__, tuple(snapshot(v) for v in obj))
    if isinstance(obj, LinearOperator):
        return ("linop", id(obj))
    return ("other", repr(obj))


def val(x):
    from pymablock.series import one, zero

    if x is zero or x is np.ma.masked:
        return "zero"
    if x is one:
        return "one"
    if isinstance(x, LinearOperator):
        return np.asarray(x @ np.eye(x.shape[1]))
    if sparse.issparse(x):
        return x.toarray()
    if isinstance(x, sympy.MatrixBase):
        return ("sym", sympy.srepr(x))
    return np.asarray(x)


def same(a, b, counters):
    if isinstance(a, str) or isinstance(b, str):
        return isinstance(a, str) and isinstance(b, str) and a == b
    if isinstance(a, tuple) or isinstance(b, tuple):
        if a == b:
            return True
        if isinstance(a, tuple) and isinstance(b, tuple) and CMP.get("sym_equal"):
            # Taylor-coefficient histories: the same polynomial may be built in another order of differentiation
            A, B = sympy.sympify(a[1]), sympy.sympify(b[1])
            if A.shape == B.shape and sympy.expand(A - B).is_zero_matrix:
                counters["symbolic_equal_not_identical"] += 1
                return True
        return False
    if a.shape != b.shape:
        return False
    if np.array_equal(a, b):
        return True
    if np.allclose(a, b, rtol=1e-12, atol=1e-14):
        counters["ulp_diff"] += 1
        return True
    if CMP["tol"] and np.all(np.isfinite(a)) and float(np.abs(a - b).max(initial=0)) <= CMP["tol"] * float(np.abs(b).max(initial=0)) + 1e-13:
        # KPM solver: two fresh computations already differ at the level of the requested accuracy (random Lanczos
        # start vector): compared to a multiple of that accuracy
        counters["kpm_values_within_solver_accuracy"] += 1
        return True
    return False


CMP = {"tol": 0.0}


class Mode:
    """A problem + a factory of fresh computations from the same input objects."""

    def __init__(self, spec):
        if spec["kind"] == "implicit":
            self._implicit(spec)
        elif spec["kind"] == "taylor":
            self._taylor(spec)
        else:
            self.p = matprob.build(spec)
            self.nb, self.n_par = len(self.p.sizes), self.p.n_par
            self.orders = self.p.orders
            self.inputs = [self.p.hamiltonian, self.p.kwargs]
            self.mk = lambda: matprob.call_library(self.p)
            self.sig = matprob.signature(spec)
            self.sample = matprob.sample_of(self.p)

    def _taylor(self, spec):
        """One sympy Matrix H(x, y) whose perturbation contains monomials with unequal powers of the two symbols: the
        library obtains every term as a Taylor coefficient (derivatives along either axis, cached lower derivatives), so
        the value of a term must not depend on which lower terms were requested before."""
        from pymablock import block_diagonalize

        rng = rng_for(10, spec["case"], 3)
        x, y = sympy.symbols("x y", real=True)
        sizes = [[1, 1], [2, 1], [1, 2]][int(rng.integers(3))]
        N = sum(sizes)
        R = sympy.Rational
        e0 = [R(0), R(1, 3), R(2), R(11, 4)]
        H = sympy.zeros(N, N)
        idx = [0] * sizes[0] + [1] * sizes[1]
        lev = {0: 0, 1: 2}
        for k, b in enumerate(idx):
            H[k, k] = e0[lev[b]]
            lev[b] += 1
        monos = [x, y, x * y, x**2 * y, x * y**2, x**2, y**2, x**3, x**2 * y, x * y**2]
        need = True
        for i in range(N):
            for j in range(i, N):
                picks = rng.choice(len(monos), size=int(rng.integers(1, 4)), replace=False)
                e = sum(int(rng.integers(1, 8)) * (-1) ** int(rng.integers(2)) * monos[int(q)] for q in picks)
                if need and (i, j) == (0, N - 1):
                    e = e + int(rng.integers(2, 6)) * [x**2 * y, x * y**2][int(rng.integers(2))]
                H[i, j] = H[i, j] + e
                if i != j:
                    H[j, i] = H[j, i] + e
        kw = dict(subspace_indices=idx, symbols=[x, y] if rng.random() < 0.7 else [y, x])
        self.tol = 0.0
        self.inputs = [H]
        self.nb, self.n_par = 2, 2
        self.orders = [(a, b) for a in range(4) for b in range(4) if a + b <= 3]
        self.mk = lambda: block_diagonalize(H, **kw)
        self.sig = ["taylor", sizes, str(H[0, N - 1])]
        self.sample = dict(mode="taylor", H=str(H), **{k: str(v) for k, v in kw.items()})

    def _implicit(self, spec):
        from pymablock import block_diagonalize
        from vf import implicit

        rng = rng_for(10, spec["case"], 1)
        kpm = bool(rng.random() < 0.2)
        ispec = implicit.gen(rng, "quick", n_par=2 if kpm else int(rng.choice([1, 1, 2])), **(dict(hermitian=True, real_pairs=False) if kpm else {}))
        ispec["N"] = max(min(ispec["N"], 9), sum(ispec["sizes"]) + 2)
        c = implicit.build(ispec)
        Hi, _ = implicit.hamiltonians(c, sparse_input=bool(rng.integers(0, 2)))
        vecs = list(c["expl"])
        kw = dict(hermitian=c["hermitian"])
        if ispec["fd"]:
            kw["fully_diagonalize"] = (0,)
        self.tol = 0.0
        if kpm:
            # KPM solver, two perturbations of very different strength (the number of moments a right-hand side needs
            # depends on its size): values must not depend on which Sylvester equations were solved before
            Hi[2] = Hi[2] * 1e-4
            kw.update(direct_solver=False, solver_options={"atol": 1e-7})
            self.tol = 1e-4  # relative to the element itself (the weak perturbation's elements are ~1e-8)
        self.inputs = [Hi, vecs]
        self.nb, self.n_par = len(c["sizes"]) + 1, ispec["n_par"]
        self.orders = [(0,), (1,), (2,)] if ispec["n_par"] == 1 else [(a, b) for a in range(3) for b in range(3) if a + b <= 2]
        self.mk = lambda: block_diagonalize(Hi, subspace_eigenvectors=vecs, **kw)
        self.sig = ["implicit", ispec["N"], ispec["complex"], c["sizes"], c["hermitian"], ispec["fd"], ispec["n_par"], bool(ispec.get("mixed_terms"))]
        self.sample = dict(mode="implicit", **{k: v for k, v in ispec.items()})


CONTAINERS = []  # masked arrays returned by multi-entry requests since the last drain


def _request(outs, req):
    """req = ('el', s, i, j, n) | ('orders', s, i, j, k) slice over the first parameter | ('blocks', s, n) all blocks at order n
    | ('list', s, i, j, [k1, k2])"""
    kind = req[0]
    if kind == "el":
        _, s, i, j, n = req
        return [((s, i, j, n), outs[s][(i, j) + n])]
    if kind == "orders":
        _, s, i, j, k, rest = req
        arr = outs[s][(i, j, slice(None, k + 1)) + rest]
        CONTAINERS.append(arr)
        return [((s, i, j, (m,) + rest), arr[m]) for m in range(k + 1)]
    if kind == "list":
        _, s, i, j, ks, rest = req
        arr = outs[s][(i, j, list(ks)) + rest]
        CONTAINERS.append(arr)
        return [((s, i, j, (m,) + rest), arr[q]) for q, m in enumerate(ks)]
    if kind == "blocks":
        _, s, n, nb = req
        arr = outs[s][(slice(None), slice(None)) + n]
        CONTAINERS.append(arr)
        return [((s, i, j, n), arr[i, j]) for i in range(nb) for j in range(nb)]
    raise ValueError(kind)


def _gen_history(rng, mode, length):
    hist = []
    maxo = max(o[0] for o in mode.orders)
    for _ in range(length):
        s = int(rng.integers(0, 3))
        i, j = int(rng.integers(0, mode.nb)), int(rng.integers(0, mode.nb))
        n = mode.orders[int(rng.integers(0, len(mode.orders)))]
        r = rng.random()
        if r < 0.55:
            hist.append(("el", s, i, j, n))
        elif r < 0.75:
            rest = n[1:]
            k = int(rng.integers(0, maxo + 1))
            while (k,) + rest not in mode.orders:
                k -= 1
            hist.append(("orders", s, i, j, k, rest))
        elif r < 0.85:
            rest = n[1:]
            ks = [m for m in sorted(set(int(x) for x in rng.integers(0, maxo + 1, size=2))) if (m,) + rest in mode.orders]
            if ks:
                hist.append(("list", s, i, j, ks, rest))
        elif r < 0.95:
            hist.append(("blocks", s, n, mode.nb))
        elif hist:
            hist.append(hist[int(rng.integers(0, len(hist)))])  # repeat
    return hist


def run_case(spec):
    counters = Counter()
    mode = Mode(spec)
    CMP["tol"] = float(getattr(mode, "tol", 0.0))
    CMP["sym_equal"] = spec["kind"] == "taylor"
    counters["implicit_kpm_histories"] += int(bool(CMP["tol"]))
    rng = rng_for(10, spec.get("hist", spec.get("case", 0) if isinstance(spec.get("case"), int) else 0), 2)
    universe = [(s, i, j, n) for s in range(3) for i in range(mode.nb) for j in range(mode.nb) for n in mode.orders]
    input_snap = snapshot(mode.inputs)

    def fresh_value(el):
        s, i, j, n = el
        try:
            return val(mode.mk()[s][(i, j) + n])
        except Exception as e:  # noqa: BLE001
            raise Violation(f"fresh computation of {el} raised {type(e).__name__}: {e}")

    canon = {}

    def canon_of(el):
        if el not in canon:
            canon[el] = fresh_value(el)
            counters["fresh_computations"] += 1
        return canon[el]

    handed = []  # (element, object, snapshot)
    kept_containers = []  # (request, masked array, its entries at hand-over, its mask at hand-over)
    del CONTAINERS[:]

    def verify_handed(context):
        for el, obj, snap in handed:
            if snapshot(obj) != snap:
                raise Violation(f"a value handed out earlier ({el}) was modified in place by {context}")
        counters["handed_out_rechecks"] += len(handed)
        for rq, arr, entries, mask in kept_containers:
            now = list(np.ma.getdata(arr).flat)
            if len(now) != len(entries) or any(a is not b for a, b in zip(now, entries)) or not np.array_equal(np.ma.getmaskarray(arr), mask):
                raise Violation(f"the array returned by the multi-entry request {rq} was rewritten by the later request {context}")
        counters["kept_containers_rechecked"] += len(kept_containers)
        while CONTAINERS:
            arr = CONTAINERS.pop()
            if isinstance(arr, np.ndarray):
                kept_containers.append((context, arr, list(np.ma.getdata(arr).flat), np.ma.getmaskarray(arr).copy()))

    def do(outs, req, context):
        try:
            got = _request(outs, req)
        except Exception as e:  # noqa: BLE001
            raise Violation(f"request {req} after history {context} raised {type(e).__name__}: {e}")
        for el, obj in got:
            if not same(val(obj), canon_of(el), counters):
                raise Violation(f"element {el} requested via {req[0]} after history {context} differs from a fresh computation (bitwise; for KPM histories beyond the solver accuracy)")
            counters["values_compared"] += 1
            if not isinstance(obj, (str, LinearOperator)) and obj is not np.ma.masked:
                from pymablock.series import one, zero

                if obj is not zero and obj is not one:
                    handed.append((el, obj, snapshot(obj)))
        verify_handed(req)

    kind = spec["kind"]
    sig_kind = kind
    if kind == "pairs":
        xs = universe[spec["x"] % len(universe)]
        for y in universe:
            outs = mode.mk()
            do(outs, ("el",) + xs, "[]")
            do(outs, ("el",) + y, f"[{xs}]")
            counters["ordered_pairs"] += 1
        n_req, series_touched = 2, 2
    else:
        ncomp = 1 if kind in ("history", "implicit") else int(rng.integers(1, 3)) if kind == "taylor" else int(rng.integers(2, 4))
        comps = [mode.mk() for _ in range(ncomp)]
        length = int(rng.integers(5, 31 if kind not in ("implicit", "taylor") else 12))
        hist = _gen_history(rng, mode, length)
        done = []
        for req in hist:
            c = int(rng.integers(0, ncomp))
            do(comps[c], req, f"{done[-4:]} on computation {c}")
            done.append(req[:2])
        n_req = len(hist)
        series_touched = len(set(r[1] for r in hist))
        counters[f"histories_{kind}"] += 1
        counters["requests"] += n_req
        if ncomp > 1:
            counters["interleaved_computations"] += ncomp
    if snapshot(mode.inputs) != input_snap:
        raise Violation("an input object (array / sparse buffer / list / dict / mask / eigenvectors) was modified by the library")
    counters["input_snapshots_verified"] += 1
    sample = dict(mode.sample if isinstance(mode.sample, dict) else {}, kind=kind)
    return dict(
        verdict="held",
        sig=[mode.sig, sig_kind, spec.get("x")],
        nontrivial=bool((n_req >= 5 and series_touched >= 2) or kind == "pairs"),
        counters=dict(counters),
        sample=jsonable(sample),
    )


def finalize(c, tier, evaluations, distinct):
    reasons = []
    need = dict(values_compared=3000, fresh_computations=3000, deletions=1000, histories_history=50, histories_interleaved=20,
                histories_implicit=20, histories_taylor=10, handed_out_rechecks=10000, kept_containers_rechecked=1000, input_snapshots_verified=100)
    if tier == "thorough":
        need["ordered_pairs"] = 5000
    for k, v in need.items():
        if c.get(k, 0) < v:
            reasons.append(f"{k} observed only {c.get(k, 0)} times (< {v})")
    return reasons
