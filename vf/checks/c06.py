"""C06 - implicit (incomplete eigenvectors) mode equals the explicit computation."""
from __future__ import annotations

import warnings
from collections import Counter

import numpy as np
from scipy import sparse
from scipy.sparse.linalg import LinearOperator

from vf import implicit
from vf.util import Violation, jsonable, rng_for

ID = "C06"
LEVEL = "exploration"
RULE = (
    "differential execution: each generated numeric problem (H_0 = R diag(E) L^dagger with random unitary / biorthogonal basis, real or "
    "complex, N = 5..14, 1-3 explicit blocks of 1-3 states, optional degenerate explicit levels, 1-2 parameters, sparse or dense "
    "input, perturbation dtype float32/complex64 or float64/complex128, real H_0 with complex (phase-rotated) eigenvectors, optional "
    "fully_diagonalize on an explicit block, default and explicit solver options) is run twice through the real library: implicit "
    "(only the explicit eigenvector subspaces) and explicit (complete eigenbasis). For H_tilde, U, U_inv at every order up to 3 "
    "(quick) / 4 every explicit block must agree, and every block touching the implicit subspace, densified through its action on "
    "the identity, must equal the explicit block embedded with R_B ... L_B^dagger (zeroth-order `one` compared on the complement), "
    "to 1e-7 relative. KPM (Hermitian, direct_solver=False) is compared on explicit blocks within 1e3 x requested accuracy x "
    "size of terms. In-situ direct-solver / Green's-function residual monitors are decisive as well. Non-trivial: order bound >= 2 "
    "and the implicit block is coupled to the explicit ones; distinct = (hermitian, complex, sizes, N, degenerate, dtype class, "
    "solver)"
)
ASSUMPTIONS = [
    "numpy's own eigen-decomposition is not used: the complete eigenbasis is the generator's own (R, L), so both runs describe exactly the same H_0",
    "direct solver: 1e-7 relative to the size of the block; KPM: 1e3 x atol",
]
BUDGET = {"quick": dict(cases=400, seconds=300), "thorough": dict(cases=6000, seconds=540)}
CASE_TIMEOUT = 120
MONITORS = {"product": False, "solvers": True, "poison": True}
MONITOR_VERDICTS = ("sylvester", "greens", "nonfinite", "fp", "write", "kpm_bounds")


def plan(tier, seed):
    rng = rng_for(6, seed)
    specs = []
    for i in range(BUDGET[tier]["cases"]):
        spec = implicit.gen(rng, tier)
        spec["solver"] = "kpm" if (i % 10 == 9) else "direct"
        if spec["solver"] == "kpm":
            spec["hermitian"] = True
            spec["N"] = min(spec["N"], 8)
            spec["fd"] = bool(rng.random() < 0.4)  # the KPM solver is then also asked for blocks inside an explicit block
            spec["degenerate"] = False
            spec["kpm_options"] = str(rng.choice(["default", "atol", "atol_aux"]))
            while sum(spec["sizes"]) > spec["N"] - 3:  # keep an implicit subspace (and room for 2 auxiliary vectors)
                spec["sizes"][int(np.argmax(spec["sizes"]))] -= 1
            spec["sizes"] = [x for x in spec["sizes"] if x > 0] or [1]
        spec["variant"] = str(rng.choice(["plain", "plain", "phase_vecs", "f4_pert", "dense_input", "options"]))
        spec["max_order"] = 3 if tier == "quick" else int(rng.choice([3, 4]))
        if spec["solver"] == "kpm":
            spec["max_order"] = 2
        specs.append(spec)
    return specs


def todense(x, shape):
    from pymablock.series import one, zero

    if x is zero:
        return np.zeros(shape, complex)
    if x is one:
        return np.eye(shape[0], dtype=complex)
    if isinstance(x, LinearOperator):
        return np.asarray(x @ np.eye(shape[1], dtype=complex))
    if sparse.issparse(x):
        return x.toarray().astype(complex)
    return np.asarray(x, complex)


def run_case(spec):
    from pymablock import block_diagonalize
    from pymablock.series import one as _one, zero as _zero

    counters = Counter()
    c = implicit.build(spec)
    rng = rng_for(6, spec["seed"], 3)
    N, k, sizes, R, L = c["N"], c["k"], c["sizes"], c["R"], c["L"]
    hermitian = c["hermitian"]
    variant = spec["variant"]
    expl, full = list(c["expl"]), list(c["full"])
    terms = list(c["terms"])
    if variant == "phase_vecs" and hermitian:
        # real or complex H_0 with eigenvectors multiplied by random phases: still an orthonormal eigenbasis
        ph = np.exp(1j * rng.uniform(0, 2 * np.pi, size=N))
        R = R * ph
        L = R
        offs = np.concatenate([[0], np.cumsum(sizes)])
        expl = [np.array(R[:, offs[i]:offs[i + 1]]) for i in range(len(sizes))]
        full = expl + [np.array(R[:, k:])]
        counters["complex_vectors_real_h0"] += int(not spec["complex"])
    if variant == "f4_pert":
        terms = [t.astype(np.complex64 if np.iscomplexobj(t) else np.float32) for t in terms]
        counters["low_precision_perturbation"] += 1
    Hs = [c["H0"]] + terms
    H_imp = [np.array(h) for h in Hs] if variant == "dense_input" else [sparse.csr_array(h) for h in Hs]
    H_exp = [np.array(h) for h in Hs]
    kw = dict(hermitian=hermitian)
    if spec["fd"]:
        kw["fully_diagonalize"] = (0,)
        counters["fully_diagonalize_explicit"] += 1
    kw_imp = dict(kw)
    tol = 1e-7
    if spec["solver"] == "kpm":
        mode = spec.get("kpm_options", "atol")
        atol_kpm = 1e-5 if mode == "default" else 1e-6  # 1e-5 is the library's documented default accuracy
        kw_imp.update(direct_solver=False)
        if mode != "default":
            kw_imp["solver_options"] = {"atol": atol_kpm}
        if mode == "atol_aux":
            aux_cols = [k + 1, k] if rng.random() < 0.5 else [k, k + 1]  # (any order: not sorted by energy)
            kw_imp["solver_options"]["auxiliary_vectors"] = np.array(R[:, aux_cols])
            counters["kpm_auxiliary"] += 1
        counters[f"kpm_options_{mode}"] += 1
        tol = 1e3 * atol_kpm
    elif variant == "options":
        kw_imp["solver_options"] = {"eigenvalue_atol": 1e-10}
        counters["explicit_solver_options"] += 1
    with warnings.catch_warnings():
        warnings.simplefilter("ignore")
        try:
            imp = block_diagonalize(H_imp, subspace_eigenvectors=expl, **kw_imp)
        except Exception as e:  # noqa: BLE001
            raise Violation(f"implicit block_diagonalize raised {type(e).__name__}: {e}")
        try:
            exp = block_diagonalize(H_exp, subspace_eigenvectors=full, **kw)
        except Exception as e:  # noqa: BLE001
            raise Violation(f"explicit block_diagonalize raised {type(e).__name__}: {e}")
        nb = len(sizes) + 1
        RB, LB = R[:, k:], L[:, k:]
        Qp = np.eye(N) - R[:, :k] @ L[:, :k].conj().T
        se = sizes + [N - k]
        n_par = spec["n_par"]
        orders = [(n,) for n in range(spec["max_order"] + 1)] if n_par == 1 else [(a, b) for a in range(3) for b in range(3) if a + b <= min(spec["max_order"], 3)]
        reqs = [(s, i, j, n) for s in range(3) for i in range(nb) for j in range(nb) for n in orders]
        worst, where = 0.0, None
        for q in rng.permutation(len(reqs)):
            s, i, j, n = reqs[q]
            if spec["solver"] == "kpm" and (i == nb - 1 or j == nb - 1) and (i != j):
                pass
            name = ("H_tilde", "U", "U_inv")[s]
            si = sizes[i] if i < nb - 1 else N
            sj = sizes[j] if j < nb - 1 else N
            try:
                raw = imp[s][(i, j) + n]
                a = todense(raw, (si, sj))
            except Exception as e:  # noqa: BLE001
                raise Violation(f"implicit mode: evaluating {name}[{i},{j},{n}] raised {type(e).__name__}: {e}")
            if i == nb - 1 and j == nb - 1 and not isinstance(raw, (LinearOperator, str)) and raw is not _zero and raw is not _one:
                raise Violation(f"implicit mode: {name}[{i},{j},{n}] of the implicit block is a {type(raw).__name__}, not a linear operator")
            b = todense(exp[s][(i, j) + n], (se[i], se[j]))
            if i == nb - 1:
                b = RB @ b
            if j == nb - 1:
                b = b @ LB.conj().T
            if i == nb - 1 and j == nb - 1 and not any(n) and s != 0:
                a = Qp @ a @ Qp  # implicit `one` is the identity of the full space: compare on the complement
            if not np.all(np.isfinite(a)):
                raise Violation(f"implicit mode returned non-finite values in {name}[{i},{j},{n}]")
            err = float(np.abs(a - b).max(initial=0)) / max(1.0, float(np.abs(b).max(initial=0)))
            counters["blocks_compared"] += 1
            if i == nb - 1 or j == nb - 1:
                counters["implicit_blocks_compared"] += 1
            if err > worst:
                worst, where = err, (name, i, j, n)
            if err > tol:
                raise Violation(
                    f"implicit != explicit: {name}[{i},{j},{n}] differs by {err:.3e} (tol {tol:g}); hermitian={hermitian}, complex={spec['complex']}, "
                    f"sizes={sizes}, N={N}, variant={variant}, solver={spec['solver']}"
                )
    counters[f"solver_{spec['solver']}"] += 1
    counters["hermitian" if hermitian else "nonhermitian"] += 1
    counters["normal_nonhermitian_plain_bases"] += int(bool(spec.get("normal")) and any(not isinstance(e, tuple) for e in expl))
    counters["complex_cases"] += int(spec["complex"])
    counters["degenerate_explicit_level"] += int(spec["degenerate"] and max(sizes) >= 2)
    counters["multi_explicit_blocks"] += int(len(sizes) >= 2)
    return dict(
        verdict="held",
        sig=[hermitian, spec["complex"], sizes, N, spec["degenerate"], variant, spec["solver"], n_par, spec["fd"]],
        nontrivial=spec["max_order"] >= 2,
        counters=dict(counters),
        sample=jsonable(dict({k_: v for k_, v in spec.items()}, worst_relative_difference=worst, at=where)),
    )


def finalize(c, tier, evaluations, distinct):
    reasons = []
    need = dict(sylvester_direct_right=200, sylvester_direct_left=50, greens_degenerate_kernel=30, complex_cases=50, solver_kpm=10, kpm_options_default=3,
                implicit_blocks_compared=2000, degenerate_explicit_level=20, multi_explicit_blocks=50, nonhermitian=50, hermitian=100,
                fully_diagonalize_explicit=20, low_precision_perturbation=10, explicit_solver_options=10)
    for k, v in need.items():
        if c.get(k, 0) < v:
            reasons.append(f"{k} observed only {c.get(k, 0)} (< {v})")
    return reasons
