"""C02 - Hermitian: U unitary at every order, U^dagger its adjoint, H_tilde Hermitian."""
from vf import oracles
from vf.checks import _herm
from vf.checks._herm import BUDGET, CASE_TIMEOUT, MONITORS, MONITOR_VERDICTS  # noqa: F401

ID = "C02"
LEVEL = "exploration"
RULE = (
    "same generator as C01 (independent seed stream); for every multi-order n up to the bound the dense Cauchy products "
    "(U^dagger U)_n and (U U^dagger)_n of the returned elements are compared with delta_{n0} on all block pairs (off-diagonal "
    "blocks included), element (i,j,n) of the third output with the conjugate transpose of U(j,i,n), and H_tilde(i,j,n) with "
    "the conjugate transpose of H_tilde(j,i,n). Non-trivial: the perturbation couples an eliminated pair and the order bound "
    "is >= 2 (so U'_n != 0 for some n >= 2); distinct = structural signature"
)
ASSUMPTIONS = _herm.ASSUMPTIONS + [
    "adjoint pairing is compared to 1e-12 relative for floating-point values (the two series are computed along different association orders), exactly for exact values",
]


def plan(tier, seed):
    return _herm.plan(tier, seed, 2)


def _oracle(p, Ht, U, G):
    oracles.check_inverse(p, U, G)
    oracles.check_adjoint_pairing(p, Ht, U, G)
    return {"orders_checked": len(p.orders)}


def run_case(spec):
    return _herm.run(spec, _oracle)


def finalize(c, tier, evaluations, distinct):
    return _herm.finalize_common(c, tier, evaluations, distinct)
