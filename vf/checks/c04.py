"""C04 - truncated effective Hamiltonian has the exact spectrum to the requested order."""
from vf import oracles
from vf.checks import _herm
from vf.checks._herm import BUDGET, CASE_TIMEOUT, MONITORS, MONITOR_VERDICTS  # noqa: F401

ID = "C04"
LEVEL = "exploration"
RULE = (
    "same generator as C01 (independent seed stream). For every k = 1..dim and every multi-order n with |n| <= N_max the power sum "
    "[tr (sum_m lambda^m H_tilde_m)^k]_n is compared with [tr H(lambda)^k]_n (Newton's identities: equal power sums <=> equal "
    "characteristic polynomials), for all truncation orders at once; U is never looked at. For every state of a fully "
    "diagonalised block with a non-degenerate level the diagonal of H_tilde is also compared with the textbook first- and "
    "second-order Rayleigh-Schroedinger formulas (rs_checks). Exact arithmetic for exact inputs. Non-trivial: perturbation "
    "couples an eliminated pair and order bound >= 2 (some eigenvalue shifts at second order)"
)
ASSUMPTIONS = _herm.ASSUMPTIONS


def plan(tier, seed):
    return _herm.plan(tier, seed, 4)


def _oracle(p, Ht, U, G):
    n = oracles.check_spectrum(p, Ht)
    rs = oracles.check_rayleigh_schroedinger(p, Ht)
    return {"power_sums_checked": n, "rs_checks": rs}


def run_case(spec):
    return _herm.run(spec, _oracle)


def finalize(c, tier, evaluations, distinct):
    r = _herm.finalize_common(c, tier, evaluations, distinct)
    if c.get("rs_checks", 0) < 20:
        r.append("fewer than 20 Rayleigh-Schroedinger comparisons")
    return r
