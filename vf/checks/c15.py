"""C15 - covariance under relabelling, permutation, degenerate rotation, conjugation, shift, scale, direct sums."""
from __future__ import annotations

import re

from collections import Counter
from fractions import Fraction

import numpy as np

from vf import matprob, oracles
from vf.util import GR, Inconclusive, Violation, adj, gr_array, gr_eye, gr_zeros, jsonable, rng_for

ID = "C15"
LEVEL = "exploration"
RULE = (
    "metamorphic covariance relations between two real executions on G-mat problems (Hermitian and non-Hermitian, full / selective / "
    "no diagonalisation, 1-4 blocks, all value types and designations): relabel (blocks renumbered, selection keys mapped), permute "
    "(basis states permuted inside blocks, masks permuted with them), rotate (random unitary inside every degenerate level of H_0), "
    "conjugate (complex conjugation of all terms), shift (H_0 + s*1, only H_tilde_0 changes), scale (whole Hamiltonian times a "
    "positive constant: H_tilde scales, U unchanged; powers of two compared BITWISE for float inputs), dsum (direct sum of two "
    "decoupled problems, states of both distributed over the same blocks: result is the direct sum). Relations are evaluated on "
    "the full matrices of H_tilde, U, U_inv at every order up to the bound. Non-trivial: perturbation couples an eliminated pair, "
    "order bound >= 2; distinct = (relation, structural signature)"
)
ASSUMPTIONS = [
    "shifts (|s| <= 100, half-integer grid) and scales keep gap/|energy| far above the library's relative degeneracy threshold 1e-5",
    "rotations are applied only with selections that are constant over degenerate groups (none / fully_diagonalize), as the property requires",
    "comparisons to 1e-9 x size of terms for floats (bitwise for power-of-two scaling), exact for exact inputs",
]
BUDGET = {"quick": dict(cases=560, seconds=300), "thorough": dict(cases=12000, seconds=540)}
CASE_TIMEOUT = 150
MONITORS = {"poison": True, "product": False, "solvers": False}
MONITOR_VERDICTS = ("fp", "nonfinite", "write")
RELATIONS = ["relabel", "permute", "rotate", "conjugate", "shift", "scale", "dsum"]


def plan(tier, seed):
    rng = rng_for(15, seed)
    specs = []
    for i in range(BUDGET[tier]["cases"]):
        rel = RELATIONS[i % len(RELATIONS)]
        force = {}
        if rel == "rotate":
            force = dict(degenerate=True, sel=str(rng.choice(["none", "fd_all", "fd_some"])))
        if rel == "relabel":
            force = dict(sizes=[int(rng.integers(1, 4)) for _ in range(int(rng.integers(2, 5)))])
        if rel == "conjugate":
            force = dict(complex=True)
        if rel == "dsum":
            force = dict(sizes=[int(rng.integers(1, 3)) for _ in range(int(rng.integers(1, 4)))])
        spec = matprob.gen_spec(rng, tier, hermitian=bool(rng.random() < 0.65), **force)
        spec["max_total"] = min(spec["max_total"], 3)
        if rel == "rotate" and spec["sel"] == "mask":
            spec["sel"] = "none"
        spec["rel"] = rel
        spec["rs"] = int(rng.integers(0, 2**31))
        specs.append(spec)
    return specs


def _run(p):
    return matprob.extract(matprob.call_library(p), p)


def _close(p, A, B, what, bitwise=False, scale=1.0):
    if p.exact:
        D = A - B
        for idx in np.ndindex(*D.shape):
            if D[idx] != 0:
                raise Violation(f"{what}: exact values differ at {idx}")
        return
    if bitwise:
        if not np.array_equal(A, B):
            raise Violation(f"{what}: not bitwise equal (max diff {np.max(np.abs(A - B)):.3e})")
        return
    err = float(np.max(np.abs(A - B), initial=0.0))
    # (rounding noise of a rotated / re-encoded input is amplified by |H'|/gap per order: oracles.noise_floor)
    m_ = re.search(r"_\(([0-9, ]+)\)$", what)
    n_ = tuple(int(x) for x in m_.group(1).replace(" ", "").strip(",").split(",")) if m_ else tuple(p.orders[-1])
    if not err <= 1e-9 * max(1.0, scale) + oracles.noise_floor(p, n_):
        raise Violation(f"{what}: differ by {err:.3e} (scale {scale:.3g})")


def _ix(M, perm):
    return M[np.ix_(perm, perm)]


def _map_terms(p, fn_f, fn_x):
    tf = {n: fn_f(n, M) for n, M in p.terms_f.items()}
    tx = {n: fn_x(n, M) for n, M in p.terms_x.items()} if p.exact else None
    return tf, tx


def _rand_unitary(rng, k, cplx, exact):
    Q = matprob._cayley_unitary(rng, k, cplx, exact)
    return gr_array(Q) if exact else np.asarray(Q, complex)


def run_case(spec):
    p = matprob.build(spec)
    rng = rng_for(15, spec["rs"])
    rel = spec["rel"]
    names = ("H_tilde", "U", "U_inv")
    base = _run(p)
    mag = max(oracles.magnitude(D) for D in base)
    counters = Counter({f"relation_{rel}": 1, "hermitian" if p.hermitian else "nonhermitian": 1, f"vtype_{spec['vtype']}": 1, f"sel_{spec['sel']}": 1})
    z = (0,) * p.n_par
    off = p.offsets()
    nb = len(p.sizes)
    compared = 0
    if rel in ("relabel", "permute"):
        if rel == "relabel":
            bperm = [int(x) for x in rng.permutation(nb)]  # new block k is old block bperm[k]
            if bperm == list(range(nb)) and nb > 1:
                bperm = bperm[1:] + bperm[:1]
            perm = np.concatenate([np.arange(off[b], off[b + 1]) for b in bperm]).astype(int)
            sizes = [p.sizes[b] for b in bperm]
            new_of_old = {old: new for new, old in enumerate(bperm)}
            fd = tuple(sorted(new_of_old[b] for b in p.fd))
            masks = {new_of_old[b]: m for b, m in p.masks.items()}
        else:
            inner = [rng.permutation(s) for s in p.sizes]
            perm = np.concatenate([off[b] + inner[b] for b in range(nb)]).astype(int)
            sizes, fd = p.sizes, p.fd
            masks = {b: m[np.ix_(inner[b], inner[b])] for b, m in p.masks.items()}
        tf, tx = _map_terms(p, lambda n, M: _ix(M, perm), lambda n, M: _ix(M, perm))
        q = matprob.derive(p, terms_f=tf, terms_x=tx, sizes=sizes, fd=fd, masks=masks)
        got = _run(q)
        for name, A, B in zip(names, base, got):
            for n in p.orders:
                _close(p, B[n], _ix(A[n], perm), f"{rel}: {name}_{n}", scale=mag)
                compared += 1
    elif rel == "rotate":
        # unitary acting inside every degenerate level (levels live inside one block by construction)
        R = gr_eye(p.N) if p.exact else np.eye(p.N, dtype=complex)
        Ec = np.array([complex(e) for e in p.E])
        groups = 0
        for e in set(Ec.tolist()):
            idx = np.flatnonzero(Ec == e)
            if len(idx) > 1:
                Qg = _rand_unitary(rng, len(idx), spec["complex"], p.exact)
                R[np.ix_(idx, idx)] = Qg
                groups += 1
        counters["degenerate_groups_rotated"] += groups
        Rd = adj(R)
        Rf = R if not p.exact else np.array([[complex(x) for x in r] for r in R])
        Rdf = Rf.conj().T
        # H_0 commutes with R exactly (R acts inside degenerate levels): keep it bit-for-bit, rotate the rest
        tf, tx = _map_terms(p, lambda n, M: M if n == z else Rdf @ M @ Rf, lambda n, M: M if n == z else Rd @ M @ R)
        q = matprob.derive(p, terms_f=tf, terms_x=tx)
        got = _run(q)
        for name, A, B in zip(names, base, got):
            for n in p.orders:
                _close(p, B[n], Rd @ A[n] @ R, f"rotate inside degenerate levels: {name}_{n}", scale=mag)
                compared += 1
        if groups == 0:
            counters["rotate_without_degeneracy"] += 1
    elif rel == "conjugate":
        def cx(n, M):
            out = M.copy()
            for idx in np.ndindex(*M.shape):
                out[idx] = M[idx].conjugate()
            return out
        tf, tx = _map_terms(p, lambda n, M: M.conj(), cx)
        q = matprob.derive(p, terms_f=tf, terms_x=tx)
        got = _run(q)
        for name, A, B in zip(names, base, got):
            for n in p.orders:
                want = cx(n, A[n]) if p.exact else A[n].conj()
                _close(p, B[n], want, f"complex conjugation: {name}_{n}", scale=mag)
                compared += 1
    elif rel == "shift":
        # with an eigenvector designation the rotated H_0 carries rounding noise proportional to |H_0| in its
        # off-diagonal blocks, which the library compares with its absolute atol=1e-12: keep |s| moderate there
        lim = 20 if (spec["design"] == "vectors" and not p.exact) else 200
        s_num = int(rng.integers(-lim, lim + 1)) or 3
        sf = s_num / 2
        def shf(n, M):
            return M + sf * np.eye(p.N) if n == z else M
        def shx(n, M):
            if n != z:
                return M
            out = M.copy()
            for i in range(p.N):
                out[i, i] = out[i, i] + GR(Fraction(s_num, 2))
            return out
        tf, tx = _map_terms(p, shf, shx)
        q = matprob.derive(p, terms_f=tf, terms_x=tx)
        got = _run(q)
        for k, (name, A, B) in enumerate(zip(names, base, got)):
            for n in p.orders:
                want = A[n]
                if k == 0 and n == z:
                    want = shx(n, A[n]) if p.exact else A[n] + sf * np.eye(p.N)
                _close(p, B[n], want, f"shift H_0 by {sf}: {name}_{n}", scale=mag + abs(sf))
                compared += 1
    elif rel == "scale" and not p.exact and spec["design"] in ("indices", "blocks") and not p.notes.get("int_h0") and not p.notes.get("units") and not p.notes.get("user_atol") and rng.random() < 0.35:
        # extreme scales (other units): the whole Hamiltonian times 2^-k, k in +-[30, 63], with the `atol` option
        # scaled alike; H_tilde converted back must agree BITWISE, U and U^dagger/U_inv are unchanged bitwise
        kexp = int(rng.integers(30, 64)) * int(rng.choice([-1, 1]))
        q = matprob.derive(p, terms_f={n: M.copy() for n, M in p.terms_f.items()}, terms_x=None, units_exp=kexp, user_atol=0.0)
        if not q.notes.get("units"):
            raise Inconclusive("the scaled twin was not encoded with units")
        got = _run(q)
        for k, (name, A, B) in enumerate(zip(names, base, got)):
            for n in p.orders:
                _close(p, B[n], A[n], f"scale by 2^{-kexp} (atol scaled alike): {name}_{n}", bitwise=True, scale=mag)
                compared += 1
        counters["bitwise_scale_comparisons"] += compared
        counters["extreme_scale_cases"] += 1
    elif rel == "scale":
        if p.exact:
            sc = GR(Fraction(int(rng.choice([2, 3, 5, 7])), int(rng.choice([1, 2, 3, 4]))))
            bitwise = False
        else:
            sc = float(rng.choice([0.25, 0.5, 2.0, 4.0, 8.0, 3.0, 0.3]))
            # (integer-typed terms become float in the scaled twin: int @ float and float @ float use different kernels)
            bitwise = sc in (0.25, 0.5, 2.0, 4.0, 8.0) and not p.notes.get("int_h0") and not p.notes.get("input_basis_term")
        def scx(n, M):
            out = M.copy()
            for idx in np.ndindex(*M.shape):
                out[idx] = M[idx] * sc
            return out
        tf, tx = _map_terms(p, lambda n, M: M * complex(sc), scx)
        q = matprob.derive(p, terms_f=tf, terms_x=tx)
        got = _run(q)
        for k, (name, A, B) in enumerate(zip(names, base, got)):
            for n in p.orders:
                want = A[n] if k else (scx(n, A[n]) if p.exact else A[n] * sc)
                _close(p, B[n], want, f"scale by {sc}: {name}_{n}", bitwise=bitwise, scale=mag * max(1.0, abs(complex(sc))))
                compared += 1
        if bitwise:
            counters["bitwise_scale_comparisons"] += compared
    elif rel == "dsum":
        spec2 = dict(spec)
        spec2["case"] = [int(x) for x in rng.integers(0, 2**31, size=3)]
        spec2["sizes"] = [int(rng.integers(1, 3)) for _ in range(nb)]
        p2 = matprob.build(matprob.normalise(spec2))
        p2.orders = list(p.orders)  # both parts and the sum are compared on the same set of multi-orders
        p2.spec["max_total"] = spec["max_total"]
        # second problem shifted by 1/4 so that all energies of the sum are distinct across the two parts
        quarter = GR(Fraction(1, 4))
        t2f = {n: (M + 0.25 * np.eye(p2.N) if n == z else M) for n, M in p2.terms_f.items()}
        t2x = None
        if p.exact:
            t2x = {}
            for n, M in p2.terms_x.items():
                M = M.copy()
                if n == z:
                    for i in range(p2.N):
                        M[i, i] = M[i, i] + quarter
                t2x[n] = M
        # same selection on the second part: full diagonalisation of the same blocks, or an explicit
        # all-False mask for masked blocks (a single block without any selection would otherwise be
        # fully diagonalised by default)
        masks2 = {b: np.zeros((p2.sizes[b], p2.sizes[b]), bool) for b in p.masks}
        p2 = matprob.derive(p2, terms_f=t2f, terms_x=t2x, fd=p.fd, masks=masks2, sel=spec["sel"])
        base2 = _run(p2)
        off2 = p2.offsets()
        sizes = [a + b for a, b in zip(p.sizes, p2.sizes)]
        # position of A-states and B-states in the combined canonical ordering
        posA, posB, cur = [], [], 0
        for b in range(nb):
            posA += list(range(cur, cur + p.sizes[b]))
            cur += p.sizes[b]
            posB += list(range(cur, cur + p2.sizes[b]))
            cur += p2.sizes[b]
        Nc = p.N + p2.N

        def embed(MA, MB, exact):
            out = gr_zeros((Nc, Nc)) if exact else np.zeros((Nc, Nc), complex)
            if MA is not None:
                out[np.ix_(posA, posA)] = MA
            if MB is not None:
                out[np.ix_(posB, posB)] = MB
            return out

        orders_all = sorted(set(p.terms_f) | set(p2.terms_f))
        tf = {n: embed(p.terms_f.get(n), p2.terms_f.get(n), False) for n in orders_all}
        tx = {n: embed(p.terms_x.get(n), p2.terms_x.get(n), True) for n in orders_all} if p.exact else None
        masks = {}
        for b in set(p.masks):
            m = np.zeros((sizes[b], sizes[b]), bool)
            m[: p.sizes[b], : p.sizes[b]] = p.masks[b]
            masks[b] = m
        q = matprob.derive(p, terms_f=tf, terms_x=tx, sizes=sizes, fd=p.fd, masks=masks)
        got = _run(q)
        zA = gr_zeros((p.N, p.N)) if p.exact else np.zeros((p.N, p.N), complex)
        zB = gr_zeros((p2.N, p2.N)) if p.exact else np.zeros((p2.N, p2.N), complex)
        for name, A, A2, B in zip(names, base, base2, got):
            for n in p.orders:
                want = embed(A.get(n, zA), A2.get(n, zB), p.exact)
                _close(q, B[n], want, f"direct sum: {name}_{n}", scale=mag)
                compared += 1
    counters["elements_compared"] += compared
    nontrivial = oracles.perturbation_couples_eliminated(p) and spec["max_total"] >= 2
    return dict(verdict="held", sig=[rel] + matprob.signature(spec), nontrivial=nontrivial, counters=dict(counters), sample=dict(relation=rel, **matprob.sample_of(p)))


def finalize(c, tier, evaluations, distinct):
    reasons = []
    for r in RELATIONS:
        if c.get(f"relation_{r}", 0) < 40:
            reasons.append(f"relation {r} exercised only {c.get('relation_' + r, 0)} times")
    for k, v in dict(hermitian=100, nonhermitian=80, bitwise_scale_comparisons=300, elements_compared=5000, degenerate_groups_rotated=40,
                     vtype_sympy=30, vtype_sparse=30, sel_mask=30, sel_fd_some=20, extreme_scale_cases=5).items():
        if c.get(k, 0) < v:
            reasons.append(f"{k} observed only {c.get(k, 0)} (< {v})")
    return reasons
