"""Shared workload of C01-C04: G-mat problems in Hermitian mode, one oracle per property."""
from __future__ import annotations

from vf import matprob, oracles
from vf.models.refsolve import ref_solve
from vf.util import Violation, rng_for

ASSUMPTIONS = [
    "inputs are generated inside the property's domain: H_0 diagonal in the designated eigenbasis, gaps >= 0.5 on a half-integer grid (|E| <= ~12), degeneracies only between kept pairs, masks symmetric and False on degenerate pairs",
    "matrix entries are dyadic rationals k/8 (exact both as floats and as rationals); float comparisons use |err| <= 1e-9 * (size of the contributing terms), exact inputs are compared with ==",
    "sizes: N <= 10 (quick) / 14 (thorough), <= 4 blocks, <= 3 parameters, total order <= 4 (5 thorough); nothing is claimed beyond these bounds",
    "the harness computes keep/eliminate sets, energies and the canonical-basis Hamiltonian itself from the user-level specification",
]

BUDGET = {"quick": dict(cases=1000, seconds=300), "thorough": dict(cases=16000, seconds=540)}
CASE_TIMEOUT = 150
MONITORS = {"poison": True}
MONITOR_VERDICTS = ("fp", "nonfinite", "write")


def plan(tier, seed, prop_no):
    rng = rng_for(prop_no, seed, 17)
    n = BUDGET[tier]["cases"]
    specs = []
    for i in range(n):
        spec = matprob.gen_spec(rng, tier, hermitian=True)
        if rng.random() < 0.08:
            spec["atol_boundary"] = int(rng.choice([20, 30]))
            spec = matprob.normalise(spec, tier == "thorough")
        elif rng.random() < 0.03:
            # a large symbolic block (6..12 states, dense coupling): the inner sums of the symbolic matrix products have
            # many terms (the library replaces SymPy's summation routine for such products)
            big = [[6], [7], [6, 2], [10], [11], [6, 6], [12, 1], [3, 7]][int(rng.integers(8))]
            spec.update(vtype="sympy", sizes=big, design="indices", container="dict", complex=False, symbolic=False,
                        sel=str(rng.choice(["fd_all", "fd_all", "none", "mask"])), atol_boundary=0, max_total=0)
            spec = matprob.normalise(spec, tier == "thorough")
            spec["max_total"] = min(spec["max_total"], 2)
            spec["big_symbolic_block"] = True
        spec["shuffle"] = int(rng.integers(0, 2**31))
        specs.append(spec)
    # exact (sympy) cases are the slow ones: spread them evenly
    return specs


def run(spec, oracle):
    p = matprob.build(spec)
    out = matprob.call_library(p)
    Ht, U, G = matprob.extract(out, p, rng=rng_for(spec["shuffle"]))
    oracles.finite_check(p, Ht, U, G)
    counters = {
        f"vtype_{spec['vtype']}": 1,
        f"sel_{spec['sel']}": 1,
        f"design_{spec['design']}": 1,
        f"blocks_{spec['nblocks']}": 1,
        f"params_{spec['n_par']}": 1,
        "exact_cases" if p.exact else "float_cases": 1,
        "tiny_units_with_atol": int(bool(p.notes.get("units"))),
        "user_atol_option": int(bool(p.notes.get("user_atol"))),
        "levels_exactly_atol_apart": int(bool(p.notes.get("atol_boundary"))),
        "big_symbolic_block": int(bool(spec.get("big_symbolic_block"))),
        "disguised_degeneracy": int(bool(p.notes.get("disguised_degeneracy"))),
        "degenerate_kept_pairs": int(any(p.E[i] == p.E[j] for i in range(p.N) for j in range(i))),
    }
    nontrivial = oracles.perturbation_couples_eliminated(p) and spec["max_total"] >= 2
    extra = oracle(p, Ht, U, G) or {}
    counters.update(extra)
    return dict(verdict="held", sig=matprob.signature(spec), nontrivial=nontrivial, counters=counters, sample=matprob.sample_of(p))


def finalize_common(c, tier, evaluations, distinct):
    reasons = []
    need = 40 if tier == "quick" else 300
    if distinct < need:
        reasons.append(f"only {distinct} distinct non-trivial cases (< {need})")
    for k in ("vtype_dense", "vtype_sparse", "vtype_sympy", "sel_mask", "sel_fd_some", "sel_none", "blocks_3", "params_2", "sylvester_dense", "sylvester_sparse", "sylvester_sympy", "tiny_units_with_atol", "user_atol_option", "levels_exactly_atol_apart", "big_symbolic_block", "disguised_degeneracy"):
        if c.get(k, 0) < (1 if k == "disguised_degeneracy" else 3):  # (a rare class: ~5-10 of 1000 cases)
            reasons.append(f"class/monitor {k} observed only {c.get(k, 0)} times")
    return reasons
