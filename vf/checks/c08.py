"""C08 - NumberOrderedForm arithmetic faithfully represents the operator algebra."""
from __future__ import annotations

import warnings
from collections import Counter

import numpy as np
import sympy
from sympy.physics.quantum import Dagger, pauli
from sympy.physics.quantum.boson import BosonOp
from sympy.physics.quantum.fermion import FermionOp

from vf.util import Inconclusive, Violation, jsonable, rng_for

ID = "C08"
LEVEL = "exploration"
RULE = (
    "random operator words and sums over 1-3 modes drawn from {2 bosons, 1 ladder, 1 spin, 2-3 fermions}: words of <= 3 factors "
    "(generators, their adjoints, powers <= 3, sigma_x/y/z, number operators and number-dependent coefficients regular at all "
    "integers: polynomials, (N+1/2)^-1, (N^2+1)^-1), sums of <= 2 words, three operands per case; special families: right operand "
    "with >= 2 fermionic annihilators / creators, left operand f(N) a^p with surplus annihilators times creators. Every result of "
    "from_expr, +, -, *, ** (<= 3), adjoint, as_expr, both association orders of triple products, distributivity and (xy)^dagger = "
    "y^dagger x^dagger is denoted as a matrix twice - by the tree-walk of the sympy expression and by the documented term order of "
    "the NumberOrderedForm (R4) - and compared on columns at least `degree` away from the truncation edge; a mismatch is "
    "re-examined with a larger cut-off and only a persisting one is a violation. Non-trivial: product of operands sharing a mode "
    "with total degree >= 3; distinct = (modes, operand structure)"
)
ASSUMPTIONS = [
    "coefficients are generated regular at every integer (a rational function with a pole at an integer is not representable faithfully by functions of N; documented limitation, see DESIGN section 4)",
    "the matrix model (vf/models/fock.py) is the reference; comparisons only on columns at distance >= degree from the truncation edge, tolerance 1e-8 relative",
]
BUDGET = {"quick": dict(cases=1500, seconds=300), "thorough": dict(cases=24000, seconds=540)}
CASE_TIMEOUT = 120
MONITORS = {"product": False, "solvers": False}
MONITOR_VERDICTS = ()


def plan(tier, seed):
    rng = rng_for(8, seed)
    fams = ["generic", "generic", "generic", "fermion_pairs", "surplus", "ladder", "spin"]
    return [dict(case=int(rng.integers(0, 2**31)), family=fams[i % len(fams)]) for i in range(BUDGET[tier]["cases"])]


def _all_ops(shared_labels=False):
    from pymablock.number_ordered_form import LadderOp

    a, b = BosonOp("a"), BosonOp("b")
    lad = LadderOp("l")
    s = pauli.SigmaMinus("s")
    c1, c2, c3 = FermionOp("c1"), FermionOp("c2"), FermionOp("c3")
    if shared_labels:
        # modes of different type that carry the same label are independent operators
        lad, s, c1, c2 = LadderOp("b"), pauli.SigmaMinus("a"), FermionOp("a"), FermionOp("b")
    return dict(a=a, b=b, l=lad, s=s, c1=c1, c2=c2, c3=c3)


def _gens(o):
    if isinstance(o, pauli.SigmaMinus):
        return [o, pauli.SigmaPlus(o.name), pauli.SigmaX(o.name), pauli.SigmaY(o.name), pauli.SigmaZ(o.name)]
    return [o, Dagger(o)]


def _rand_factor(rng, ops):
    from pymablock.number_ordered_form import LadderOp, NumberOperator

    r = rng.random()
    gens = [g for o in ops for g in _gens(o)]
    if r < 0.55:
        return gens[int(rng.integers(len(gens)))], 1
    if r < 0.7:
        inf = [o for o in ops if isinstance(o, (BosonOp, LadderOp))]
        if not inf:
            return gens[int(rng.integers(len(gens)))], 1
        o = inf[int(rng.integers(len(inf)))]
        o = o if rng.random() < 0.5 else Dagger(o)
        p = int(rng.integers(2, 4))
        return o**p, p
    n = NumberOperator(ops[int(rng.integers(len(ops)))])
    k = int(rng.integers(6))
    if k == 4:
        return sympy.Abs(n), 0  # sign-sensitive functions: a ladder mode's number operator also takes negative values
    if k == 5:
        return sympy.sqrt(n**2), 0
    if k == 0:
        return n, 0
    if k == 1:
        return (n + sympy.Rational(1, 2)) ** -1, 0
    if k == 2:
        return n**2 + 3, 0
    return (n**2 + 1) ** -1, 0


def _rand_expr(rng, ops, max_words=2, max_factors=3):
    terms, deg = [], 0
    for _ in range(int(rng.integers(1, max_words + 1))):
        fs = [_rand_factor(rng, ops) for _ in range(int(rng.integers(1, max_factors + 1)))]
        coef = sympy.Rational(int(rng.integers(1, 5)), int(rng.integers(1, 4))) * (sympy.I if rng.random() < 0.15 else 1)
        terms.append(coef * sympy.Mul(*[f for f, _ in fs]))
        deg = max(deg, sum(d for _, d in fs))
    return sympy.Add(*terms), deg


def _family_operands(rng, family, O):
    """Returns (ops, [(expr, degree)] * 3)"""
    from pymablock.number_ordered_form import NumberOperator as Nop

    a, b, lad, s, c1, c2, c3 = O["a"], O["b"], O["l"], O["s"], O["c1"], O["c2"], O["c3"]
    if family == "fermion_pairs":
        ops = [c1, c2] + ([c3] if rng.random() < 0.5 else []) + ([a] if rng.random() < 0.5 else [])
        f = [o for o in ops if isinstance(o, FermionOp)]
        i, j = (int(x) for x in rng.choice(len(f), size=2, replace=False))
        pair_ann = f[i] * f[j]
        pair_cre = Dagger(f[i]) * Dagger(f[j])
        e1 = _rand_expr(rng, ops)
        e2 = (pair_ann * (1 + Nop(f[i])) if rng.random() < 0.5 else pair_ann + sympy.Rational(1, 2) * pair_cre, 2)
        e3 = (pair_cre if rng.random() < 0.5 else Dagger(f[j]) * f[i] * f[j], 3)
        if a in ops and rng.random() < 0.6:
            # two anticommuting creators next to a coefficient that SymPy regards as a commuting scalar
            e1 = (sympy.Abs(Nop(a) - int(rng.integers(0, 3))) * pair_cre * (Dagger(a) if rng.random() < 0.5 else 1), 2)
        return ops, [e1, e2, e3]
    if family == "surplus":
        o = a if rng.random() < 0.6 else lad
        ops = [o] + ([b] if rng.random() < 0.3 else []) + ([c1] if rng.random() < 0.3 else [])
        n = Nop(o)
        fN = [n, n**2 + 1, (n + sympy.Rational(1, 2)) ** -1, (n**2 + 1) ** -1][int(rng.integers(4))]
        p, q = int(rng.integers(1, 4)), int(rng.integers(1, 4))
        e1 = (fN * o**p, p)
        e2 = (Dagger(o) ** q, q)
        e3 = _rand_expr(rng, ops, max_words=1, max_factors=2)
        return ops, [e1, e2, e3]
    if family == "ladder":
        ops = [lad] + ([a] if rng.random() < 0.5 else []) + ([c1] if rng.random() < 0.3 else [])
    elif family == "spin":
        ops = [s] + ([a] if rng.random() < 0.5 else []) + ([c1] if rng.random() < 0.4 else [])
    else:
        pool = [a, b, lad, s, c1, c2]
        ops = [pool[int(k)] for k in rng.choice(len(pool), size=int(rng.integers(1, 4)), replace=False)]
    return ops, [_rand_expr(rng, ops) for _ in range(3)]


def run_case(spec):
    from pymablock.number_ordered_form import LadderOp, NumberOrderedForm as NOF, generator_types
    from vf.models.fock import Model

    rng = rng_for(8, spec["case"])
    counters = Counter()
    shared_labels = bool(rng.random() < 0.15)
    counters["shared_labels"] += int(shared_labels)
    O = _all_ops(shared_labels)
    ops, exprs = _family_operands(rng, spec["family"], O)
    ops = sorted(set(ops), key=lambda op: (generator_types.index(type(op)), str(op.name)))
    (e1, d1), (e2, d2), (e3, d3) = exprs
    if d1 + d2 + d3 > 7:
        return dict(verdict="held", sig=["skipped-degree"], nontrivial=False, counters={"skipped_high_degree": 1}, sample=None)
    nbos = sum(isinstance(o, BosonOp) for o in ops)

    def model(extra=0):
        # per-case model with only the modes that occur; keep the dimension moderate
        d, L = (13 if nbos < 2 else 9), 9
        nlad = sum(isinstance(o, LadderOp) for o in ops)
        nbin = len(ops) - nbos - nlad
        while (d**nbos) * ((2 * L + 1) ** nlad) * (2**nbin) > 420 and (d > 6 or L > 6):
            d, L = max(6, d - 1), max(6, L - 1)
        return Model(ops, d=d + extra, L=L + extra)

    M = model()
    with warnings.catch_warnings():
        warnings.simplefilter("ignore")
        try:
            n1, n2, n3 = [NOF.from_expr(e, ops) for e in (e1, e2, e3)]
        except Exception as ex:  # noqa: BLE001
            raise Violation(f"from_expr raised {type(ex).__name__}: {ex} on {e1} | {e2} | {e3}")
        results = []

        def add(label, fn_nof, fn_mat, deg):
            results.append((label, fn_nof, fn_mat, deg))

        add("from_expr", lambda: n1, lambda m: m[0], d1)
        add("mul", lambda: n1 * n2, lambda m: m[0] @ m[1], d1 + d2)
        add("mul_rev", lambda: n2 * n1, lambda m: m[1] @ m[0], d1 + d2)
        add("add", lambda: n1 + n2, lambda m: m[0] + m[1], max(d1, d2))
        add("sub", lambda: n1 - n2, lambda m: m[0] - m[1], max(d1, d2))
        add("adjoint", lambda: Dagger(n1), lambda m: m[0].conj().T, d1)
        add("assoc_left", lambda: (n1 * n2) * n3, lambda m: m[0] @ m[1] @ m[2], d1 + d2 + d3)
        add("assoc_right", lambda: n1 * (n2 * n3), lambda m: m[0] @ m[1] @ m[2], d1 + d2 + d3)
        add("distributive", lambda: n1 * (n2 + n3), lambda m: m[0] @ (m[1] + m[2]), d1 + max(d2, d3))
        add("distributive_right", lambda: (n1 + n2) * n3, lambda m: (m[0] + m[1]) @ m[2], max(d1, d2) + d3)
        add("adjoint_of_product", lambda: Dagger(n1 * n2), lambda m: m[1].conj().T @ m[0].conj().T, d1 + d2)
        add("power2", lambda: n1**2, lambda m: m[0] @ m[0], 2 * d1)
        if 3 * d2 <= 7:
            add("power3", lambda: n2**3, lambda m: m[1] @ m[1] @ m[1], 3 * d2)
        if 6 * d2 <= 7:
            # higher integer powers of a compound expression (N**5, (N + c)**6, (a + f(N))**5 ...)
            add("power5", lambda: n2**5, lambda m: np.linalg.matrix_power(m[1], 5), 5 * d2)
            add("power6", lambda: n2**6, lambda m: np.linalg.matrix_power(m[1], 6), 6 * d2)
        add("as_expr_roundtrip", lambda: NOF.from_expr(n1.as_expr(), ops), lambda m: m[0], d1)
        add("mixed_with_expr", lambda: n1 * e2, lambda m: m[0] @ m[1], d1 + d2)
        # right operand a plain expression that SymPy regards as a commuting scalar although it depends on a number
        # operator (Abs, sign): it must still be commuted through the unmatched operators of the left operand
        from pymablock.number_ordered_form import NumberOperator as _Nop

        _n = _Nop(ops[int(rng.integers(len(ops)))])
        _k = int(rng.integers(0, 4))
        gfun = [sympy.Abs(_n - _k), sympy.sign(_n - _k) + 2, sympy.Rational(3, 2) * sympy.Abs(_n - _k)][int(rng.integers(3))]
        gmat = {}
        add("mixed_with_scalar_function", lambda: n1 * gfun, lambda m: m[0] @ gmat.setdefault(id(m), (M if m is mats else Mb_holder[0]).expr(gfun)), d1)
        add("scalar_function_assoc", lambda: (n1 * gfun) * n3, lambda m: m[0] @ gmat.setdefault(id(m), (M if m is mats else Mb_holder[0]).expr(gfun)) @ m[2], d1 + d3)
        mats = [M.expr(e1), M.expr(e2), M.expr(e3)]
        mats_big = None
        Mb_holder = [None]
        for label, fn_nof, fn_mat, deg in results:
            try:
                x = fn_nof()
            except Exception as ex:  # noqa: BLE001
                raise Violation(f"{label} raised {type(ex).__name__}: {ex} on {e1} | {e2} | {e3}")
            want = fn_mat(mats)
            cols = M.safe_cols(deg)
            if len(cols) == 0:
                counters["no_safe_columns"] += 1
                continue
            try:
                got = M.nof(x)
            except Exception as ex:  # noqa: BLE001
                raise Violation(f"{label}: the result is not a well-formed NumberOrderedForm (its denotation raised {type(ex).__name__}: {str(ex)[:200]}) for "
                                f"x = {e1} | y = {e2} | z = {e3}; result terms = {dict(x.terms) if hasattr(x, 'terms') else x}")
            scale = max(1.0, float(np.abs(want[:, cols]).max(initial=0)))
            err = float(np.abs(got - want)[:, cols].max(initial=0))
            counters["comparisons"] += 1
            counters[f"op_{label}"] += 1
            if not np.isfinite(err) or err > 1e-8 * scale:
                # double cut-off rule
                Mb = model(3)
                Mb_holder[0] = Mb
                if mats_big is None:
                    mats_big = [Mb.expr(e1), Mb.expr(e2), Mb.expr(e3)]
                wb = fn_mat(mats_big)
                colsb = Mb.safe_cols(deg)
                errb = float(np.abs(Mb.nof(x) - wb)[:, colsb].max(initial=0))
                if np.isfinite(errb) and errb <= 1e-8 * max(1.0, float(np.abs(wb[:, colsb]).max(initial=0))):
                    raise Inconclusive(f"{label}: mismatch only at the smaller cut-off (truncation artefact)")
                raise Violation(
                    f"{label}: NumberOrderedForm result denotes a different operator (err {err:.3e} / {errb:.3e} at the larger cut-off) for "
                    f"x = {e1} | y = {e2} | z = {e3}; result terms = {dict(x.terms) if hasattr(x, 'terms') else x}"
                )
            if label == "as_expr_roundtrip":
                # second, independent denotation: tree-walk of as_expr() must agree with the term-order denotation
                direct = M.expr(n1.as_expr())
                e2_ = float(np.abs(direct - got)[:, cols].max(initial=0))
                counters["as_expr_direct"] += 1
                if e2_ > 1e-8 * scale:
                    raise Violation(f"as_expr(): expression {n1.as_expr()} denotes another operator than the form's terms {dict(n1.terms)}")
    ferm_right = sum(1 for o in ops if isinstance(o, FermionOp)) >= 2 and spec["family"] == "fermion_pairs"
    counters["right_operand_two_fermionic_annihilators"] += int(ferm_right)
    counters["surplus_annihilation_number_coefficient"] += int(spec["family"] == "surplus")
    counters[f"family_{spec['family']}"] += 1
    for o in ops:
        counters[f"stat_{type(o).__name__}"] += 1
    shared = d1 + d2 >= 3
    return dict(
        verdict="held",
        sig=[[str(o) for o in ops], str(e1)[:40], str(e2)[:40], str(e3)[:30]],
        nontrivial=bool(shared),
        counters=dict(counters),
        sample=jsonable(dict(ops=[str(o) for o in ops], x=str(e1), y=str(e2), z=str(e3), degrees=[d1, d2, d3], model_dim=M.D)),
    )


def finalize(c, tier, evaluations, distinct):
    reasons = []
    need = dict(comparisons=3000, op_mul=200, op_assoc_left=150, op_adjoint_of_product=150, op_power3=30, as_expr_direct=150,
                right_operand_two_fermionic_annihilators=30, surplus_annihilation_number_coefficient=30, stat_BosonOp=100, stat_FermionOp=100,
                stat_LadderOp=40, stat_SigmaMinus=40)
    for k, v in need.items():
        if c.get(k, 0) < v:
            reasons.append(f"{k} observed only {c.get(k, 0)} (< {v})")
    return reasons
