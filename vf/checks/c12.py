"""C12 - lazy and causal: order n uses only Hamiltonian terms of order <= n."""
from __future__ import annotations

import itertools
from collections import Counter

import numpy as np

from vf.util import Violation, jsonable, rng_for

ID = "C12"
LEVEL = "exploration"
RULE = (
    "the Hamiltonian is a user BlockSeries (2-3 blocks, 1-3 parameters; given pre-split into blocks, or as a scalar series of full matrices with subspace_indices / identity eigenvectors / no subspace argument) with non-zero terms at a random set of multi-orders; its eval "
    "callback logs every call (the index is the unique id) and raises a marker exception for every order outside the causal cone "
    "{m : m <= n componentwise} of the request in progress, so that an out-of-cone evaluation is observable even if its value "
    "would be discarded. Checked offline on the log: (a) defining the computation evaluates only zeroth-order terms, (b) every "
    "request (random schedule over H_tilde, U, U_inv, all blocks, orders in a box; a third are multi-element requests - paired order lists or order slices - whose cone is the union of the requested orders' cones) evaluates only in-cone terms, (c) no term is "
    "evaluated twice over the whole history, (d) metamorphic: re-running with all out-of-cone terms replaced by other values gives "
    "bitwise the same requested value. In-situ monitor 'causal': no nested BlockSeries request exceeds the outermost requested "
    "order. Modes: Hermitian / non-Hermitian, full / selective / no diagonalisation inside blocks. Non-trivial: the Hamiltonian has "
    "a non-zero term outside the cone of at least one request and inside the cone of another; distinct = (blocks, parameters, "
    "term-order set, mode, schedule length)"
)
ASSUMPTIONS = [
    "the user series caches its own elements (BlockSeries semantics), so 'at most once' is observed at the user's eval boundary",
    "values are dense float blocks; H_0 diagonal with gaps >= 1",
]
BUDGET = {"quick": dict(cases=3000, seconds=300), "thorough": dict(cases=40000, seconds=480)}
CASE_TIMEOUT = 90
MONITORS = {"causal": True}
MONITOR_VERDICTS = ("causal", "pending")


class OutOfCone(Exception):
    pass


def plan(tier, seed):
    rng = rng_for(12, seed)
    return [dict(case=int(rng.integers(0, 2**31))) for _ in range(BUDGET[tier]["cases"])]


def _make(rng, nb, sizes, n_par, term_orders, values, E, hermitian, log, state):
    from pymablock.series import BlockSeries, zero

    def ev(*index):
        i, j, *n = (int(x) for x in index)
        n = tuple(n)
        log.append((i, j, n, state["phase"]))
        cone = state.get("cone")
        if cone is not None:
            cones = cone if isinstance(cone, list) else [cone]
            if not any(all(a <= b for a, b in zip(n, c)) for c in cones):
                raise OutOfCone(f"H[{i},{j},{n}] evaluated while computing order(s) {cones}")
        if not any(n):
            return np.diag(E[i]) if i == j else zero
        if n not in term_orders:
            return zero
        v = values(i, j, n)
        if state.get("recursive") and sum(n) >= 2:
            # Taylor-like recursive definition: the callback reads a lower term of its own series
            q = next(k for k, x in enumerate(n) if x)
            prev = n[:q] + (n[q] - 1,) + n[q + 1:]
            w = state["H"][(i, j) + prev]
            if w is not zero:
                v = v + 0.5 * w
        return v

    if state.get("form", "blocks") == "blocks":
        return BlockSeries(eval=ev, shape=(nb, nb), n_infinite=n_par, name="H")
    # scalar series of full matrices (to be split by subspace_indices / eigenvectors / not at all)
    off = np.concatenate([[0], np.cumsum(sizes)])
    N = int(off[-1])

    def ev_full(*n):
        n = tuple(int(x) for x in n)
        log.append((-1, -1, n, state["phase"]))
        cone = state.get("cone")
        if cone is not None:
            cones = cone if isinstance(cone, list) else [cone]
            if not any(all(a <= b for a, b in zip(n, c)) for c in cones):
                raise OutOfCone(f"H[{n}] evaluated while computing order(s) {cones}")
        if not any(n):
            if state.get("form") == "scalar_blocklist":
                return [[np.diag(E[i]) if i == j else np.zeros((sizes[i], sizes[j])) for j in range(nb)] for i in range(nb)]
            return np.diag(np.concatenate(E))
        if n not in term_orders:
            return zero
        M = np.zeros((N, N))
        for i in range(nb):
            for j in range(nb):
                M[off[i]:off[i + 1], off[j]:off[j + 1]] = values(i, j, n)
        if state.get("form") == "scalar_blocklist":
            # packed term: a list of lists of blocks (unpacked by the library, no subspace argument)
            return [[M[off[i]:off[i + 1], off[j]:off[j + 1]].copy() for j in range(nb)] for i in range(nb)]
        if state.get("recursive") and sum(n) >= 2:
            q = next(k for k, x in enumerate(n) if x)
            w = state["H"][n[:q] + (n[q] - 1,) + n[q + 1:]]
            if w is not zero:
                M = M + 0.5 * np.asarray(w)
        return M

    return BlockSeries(eval=ev_full, shape=(), n_infinite=n_par, name="H")


def _secondq_case(spec, rng):
    """Lazily defined second-quantised Hamiltonians (sympy expressions with boson / spin operators): a scalar series,
    a 1x1 block series or a 2x2 operator-valued block series, two parameters."""
    import sympy
    import warnings
    from sympy.physics.quantum import Dagger
    from sympy.physics.quantum.boson import BosonOp
    from pymablock import block_diagonalize
    from pymablock.series import BlockSeries, zero

    counters = Counter()
    a, b = BosonOp("a"), BosonOp("b")
    R = sympy.Rational
    wa, wb = R(3, 2), R(47, 10)
    na, nb_ = Dagger(a) * a, Dagger(b) * b
    kind = str(rng.choice(["scalar", "block1", "block2"]))
    cf = lambda: R(int(rng.integers(1, 5)), int(rng.integers(2, 6)))  # noqa: E731
    if kind in ("scalar", "block1"):
        table = {(0, 0): wa * na + wb * nb_, (1, 0): cf() * (a + Dagger(a)), (0, 1): cf() * (Dagger(a) * b + Dagger(b) * a)}
        if rng.random() < 0.5:
            table[(1, 1)] = cf() * na * (b + Dagger(b))
        if rng.random() < 0.5:
            table[(2, 0)] = cf() * (a**2 + Dagger(a) ** 2)
        if rng.random() < 0.3:
            del table[(0, 1)]  # the second mode then only appears at higher order or not at all
    else:
        g1, g2, g3 = cf(), cf(), cf()
        table = None

        def block_term(i, j, n):
            if n == (0, 0):
                return sympy.Matrix([[wa * na + (1 - 2 * i) * wb / 2]]) if i == j else zero
            if n == (1, 0):
                return sympy.Matrix([[g1 * (a + Dagger(a))]]) if i != j else zero
            if n == (0, 1):
                return sympy.Matrix([[(1 - 2 * i) * g2 * na]]) if i == j else zero
            if n == (1, 1) and i != j:
                return sympy.Matrix([[g3 * (a**2 if i < j else Dagger(a) ** 2)]])
            return zero

    log = []
    state = {"cone": [(0, 0)]}

    def note(key, n):
        log.append((key, n))
        if not any(all(x <= y for x, y in zip(n, c)) for c in state["cone"]):
            raise OutOfCone(f"H{key + n} evaluated while computing order(s) {state['cone']}")

    if kind == "scalar":
        def ev(*n):
            n = tuple(int(x) for x in n)
            note((), n)
            return table.get(n, sympy.S.Zero)
        H = BlockSeries(eval=ev, shape=(), n_infinite=2, name="H")
    elif kind == "block1":
        def ev(i, j, *n):
            n = tuple(int(x) for x in n)
            note((int(i), int(j)), n)
            return table.get(n, sympy.S.Zero)
        H = BlockSeries(eval=ev, shape=(1, 1), n_infinite=2, name="H")
    else:
        def ev(i, j, *n):
            n = tuple(int(x) for x in n)
            note((int(i), int(j)), n)
            return block_term(int(i), int(j), n)
        H = BlockSeries(eval=ev, shape=(2, 2), n_infinite=2, name="H")
    with warnings.catch_warnings():
        warnings.simplefilter("ignore")
        try:
            outs = block_diagonalize(H)
        except OutOfCone as e:
            raise Violation(f"defining the block diagonalisation of a second-quantised series evaluated a perturbative term: {e}")
        except Exception as e:  # noqa: BLE001
            raise Violation(f"block_diagonalize on a lazily defined second-quantised series raised {type(e).__name__}: {e}")
        bad = [l for l in log if any(l[1])]
        if bad:
            raise Violation(f"defining the block diagonalisation evaluated H at order {bad[0][1]} (second-quantised series)")
        counters["define_time_evals"] += len(log)
        nbk = outs[0].shape[0]
        universe = [(s_, i, j, n) for s_ in range(3) for i in range(nbk) for j in range(nbk) for n in [(1, 0), (0, 1), (2, 0), (0, 2), (1, 1)]]
        for q in rng.choice(len(universe), size=2, replace=False):
            s_, i, j, n = universe[int(q)]
            state["cone"] = [n]
            before = len(log)
            try:
                outs[s_][(i, j) + n]
            except OutOfCone as e:
                raise Violation(f"second-quantised series: request {('H_tilde', 'U', 'U_inv')[s_]}[{i},{j},{n}] evaluated a term outside its causal cone: {e}")
            except RuntimeError as e:
                cur = e
                while cur is not None:
                    if isinstance(cur, OutOfCone):
                        raise Violation(f"second-quantised series: request {('H_tilde', 'U', 'U_inv')[s_]}[{i},{j},{n}] evaluated a term outside its causal cone: {cur}")
                    cur = cur.__cause__
                raise Violation(f"request raised RuntimeError: {e}")
            except Exception as e:  # noqa: BLE001
                raise Violation(f"second-quantised series: request {('H_tilde', 'U', 'U_inv')[s_]}[{i},{j},{n}] raised {type(e).__name__}: {e}")
            counters["hamiltonian_evals"] += len(log) - before
            counters["requests"] += 1
    keys = Counter(log)
    dup = [k for k, v in keys.items() if v > 1]
    if dup:
        raise Violation(f"second-quantised series: Hamiltonian term {dup[0]} evaluated {keys[dup[0]]} times")
    counters["form_second_quantised"] += 1
    counters[f"second_quantised_{kind}"] += 1
    return dict(verdict="held", sig=["2q", kind, sorted(map(str, table or [])), len(log)], nontrivial=True, counters=dict(counters),
                sample=jsonable(dict(form="second_quantised", kind=kind)))


def run_case(spec):
    from pymablock import block_diagonalize
    from pymablock.series import one, zero

    rng = rng_for(12, spec["case"])
    if rng.random() < 0.025:
        return _secondq_case(spec, rng)
    nb = int(rng.integers(2, 4))
    sizes = [int(rng.integers(1, 3)) for _ in range(nb)]
    n_par = int(rng.integers(1, 4))
    hermitian = bool(rng.integers(0, 2))
    box = {1: (3,), 2: (2, 2), 3: (1, 1, 1)}[n_par]
    all_orders = [o for o in itertools.product(*[range(b + 2) for b in box]) if any(o)]
    k = int(rng.integers(1, min(6, len(all_orders)) + 1))
    term_orders = set(all_orders[int(x)] for x in rng.choice(len(all_orders), size=k, replace=False))
    # make sure a first-order term exists so that something happens
    term_orders.add(tuple(1 if q == 0 else 0 for q in range(n_par)))
    E = [np.arange(s, dtype=float) + 10.0 * b for b, s in enumerate(sizes)]
    sel = str(rng.choice(["none", "fd", "mask"]))
    kwargs = dict(hermitian=hermitian)
    if sel == "fd":
        kwargs["fully_diagonalize"] = tuple(sorted(int(x) for x in rng.choice(nb, size=int(rng.integers(1, nb + 1)), replace=False)))
    elif sel == "mask":
        b = int(rng.integers(0, nb))
        m = rng.random((sizes[b], sizes[b])) < 0.5
        m = np.triu(m, 1)
        m = m | m.T
        kwargs["fully_diagonalize"] = {b: m}

    def make_values(salt):
        cache = {}
        r = rng_for(12, spec["case"], salt)

        def values(i, j, n):
            key = (min(i, j), max(i, j), n) if hermitian else (i, j, n)
            if key not in cache:
                a = r.integers(-8, 9, size=(sizes[key[0]], sizes[key[1]])) / 8.0
                if hermitian and key[0] == key[1]:
                    a = a + a.T
                cache[key] = a
            return cache[key] if (not hermitian or i <= j) else cache[key].T

        return values

    base_values = make_values(0)
    counters = Counter()
    log = []
    form = str(rng.choice(["blocks", "blocks", "scalar_indices", "scalar_vectors", "scalar_single", "scalar_implicit", "scalar_blocklist"]))
    state = {"phase": "define", "cone": None, "form": form}
    counters[f"form_{form}"] += 1
    Ntot = sum(sizes)
    if form == "scalar_indices":
        kwargs["subspace_indices"] = [b for b, s_ in enumerate(sizes) for _ in range(s_)]
    elif form == "scalar_vectors":
        eye = np.eye(Ntot)
        offs = np.concatenate([[0], np.cumsum(sizes)])
        kwargs["subspace_eigenvectors"] = tuple(eye[:, offs[b]:offs[b + 1]] for b in range(nb))
    elif form == "scalar_implicit":
        # implicit mode: only the first block's eigenvectors are given, the rest of the space is implicit
        eye = np.eye(Ntot)
        kwargs["subspace_eigenvectors"] = (eye[:, : sizes[0]],)
        kwargs.pop("fully_diagonalize", None)
        sel = "implicit"
    elif form == "scalar_single":
        # no subspace argument: one block, fully diagonalised by default; the block structure is only in the values
        kwargs.pop("fully_diagonalize", None)
        sel = "single"
    if form not in ("scalar_implicit", "scalar_blocklist") and rng.random() < 0.35:
        # the series is defined recursively (its callback reads lower terms of the series itself) and the names of the
        # perturbation parameters are passed with `symbols`
        import sympy as _sp

        state["recursive"] = True
        kwargs["symbols"] = [_sp.Symbol(f"x{k}", real=True) for k in range(n_par)]
        counters["recursive_series_with_symbols"] += 1
    H = _make(rng, nb, sizes, n_par, term_orders, base_values, E, hermitian, log, state)
    state["H"] = H
    state["cone"] = (0,) * n_par  # defining may look at zeroth order only
    try:
        outs = block_diagonalize(H, **kwargs)
    except OutOfCone as e:
        raise Violation(f"defining the block diagonalisation evaluated a perturbative term: {e}")
    bad = [l for l in log if any(l[2])]
    if bad:
        raise Violation(f"defining the block diagonalisation evaluated H at order {bad[0][2]}")
    counters["define_time_evals"] += len(log)
    # random schedule of requests
    nb_out = 1 if form == "scalar_single" else 2 if form == "scalar_implicit" else nb
    universe = [(s, i, j, n) for s in range(3) for i in range(nb_out) for j in range(nb_out) for n in itertools.product(*[range(b + 1) for b in box])]
    schedule = [universe[int(x)] for x in rng.choice(len(universe), size=int(rng.integers(2, 7)), replace=False)]
    nontrivial_out = nontrivial_in = False
    results = []
    for step, (s, i, j, n) in enumerate(schedule):
        # a third of the requests are multi-element (paired lists over the order axes / a slice):
        # the cone is then the union of the cones of the requested orders
        multi = None
        if rng.random() < 0.35:
            others = [universe[int(x)][3] for x in rng.choice(len(universe), size=int(rng.integers(1, 3)))]
            if n_par >= 2 and rng.random() < 0.7:
                multi = [n] + others
                item = (i, j) + tuple([m[k] for m in multi] for k in range(n_par))
            else:
                multi = [(k,) + n[1:] for k in range(n[0] + 1)]
                item = (i, j, slice(None, n[0] + 1)) + n[1:]
            counters["multi_element_requests"] += 1
        state["phase"], state["cone"] = step, (multi if multi else n)
        before = len(log)
        try:
            v = outs[s][item] if multi else outs[s][(i, j) + n]
        except OutOfCone as e:
            raise Violation(f"request {('H_tilde', 'U', 'U_inv')[s]}[{i},{j},{n}] evaluated a term outside its causal cone: {e}")
        except RuntimeError as e:
            cur = e
            while cur is not None:
                if isinstance(cur, OutOfCone):
                    raise Violation(f"request {('H_tilde', 'U', 'U_inv')[s]}[{i},{j},{n}] evaluated a term outside its causal cone: {cur}")
                cur = cur.__cause__
            raise Violation(f"request raised RuntimeError: {e}")
        except Exception as e:  # noqa: BLE001
            raise Violation(f"request {('H_tilde', 'U', 'U_inv')[s]}[{i},{j},{n}] raised {type(e).__name__}: {e}")
        results.append(v)
        new = log[before:]
        counters["hamiltonian_evals"] += len(new)
        for (_, _, m, _) in new:
            if not any(all(a <= b for a, b in zip(m, c)) for c in (multi or [n])):
                raise Violation(f"request at order(s) {multi or n} evaluated H at order {m}")
        if any(any(a > b for a, b in zip(o, n)) for o in term_orders):
            nontrivial_out = True
        if any(all(a <= b for a, b in zip(o, n)) for o in term_orders) and any(new):
            nontrivial_in = True
        counters["requests"] += 1
    keys = Counter((a, b, c) for a, b, c, _ in log)
    dup = [k for k, v in keys.items() if v > 1]
    if dup:
        raise Violation(f"Hamiltonian term {dup[0]} evaluated {keys[dup[0]]} times")
    counters["distinct_terms_evaluated"] += len(keys)
    # metamorphic: alter every out-of-cone term (no poison now), same single request on fresh computations
    s, i, j, n = schedule[-1]
    alt_values = make_values(1)

    def mixed(ii, jj, m):
        return base_values(ii, jj, m) if all(a <= b for a, b in zip(m, n)) else 7.0 * alt_values(ii, jj, m) + 1.0

    vals = []
    for vf_ in (base_values, mixed):
        st = {"phase": "meta", "cone": None}
        st["form"] = form
        st["recursive"] = state.get("recursive", False)
        H2 = st["H"] = _make(rng, nb, sizes, n_par, (term_orders | {o for o in all_orders if any(a > b for a, b in zip(o, n))}) if vf_ is mixed else term_orders, vf_, E, hermitian, [], st)
        o2 = block_diagonalize(H2, **kwargs)
        vals.append(o2[s][(i, j) + n])
    a, b = vals
    from scipy.sparse.linalg import LinearOperator as _LO

    if isinstance(a, _LO):
        a = a @ np.eye(a.shape[1])
    if isinstance(b, _LO):
        b = b @ np.eye(b.shape[1])
    same = (a is b) if (a is zero or a is one or b is zero or b is one) else np.array_equal(np.asarray(a), np.asarray(b))
    if not same:
        raise Violation(f"value of {('H_tilde', 'U', 'U_inv')[s]}[{i},{j},{n}] changed when only out-of-cone Hamiltonian terms were altered")
    counters["metamorphic_pairs"] += 1
    sample = dict(blocks=sizes, n_par=n_par, hermitian=hermitian, term_orders=sorted(term_orders), sel=sel, schedule=[list(map(str, q)) for q in schedule])
    return dict(
        verdict="held",
        sig=[nb, n_par, sorted(term_orders), hermitian, sel, len(schedule)],
        nontrivial=bool(nontrivial_out and nontrivial_in),
        counters=dict(counters),
        sample=jsonable(sample),
    )


def finalize(c, tier, evaluations, distinct):
    reasons = []
    need = dict(recursive_series_with_symbols=100, form_second_quantised=15, form_scalar_implicit=40, form_scalar_indices=50, form_scalar_vectors=50, form_scalar_single=50, form_blocks=100, multi_element_requests=200, requests=1000, hamiltonian_evals=1000, metamorphic_pairs=300, causal_nested_requests=10000, define_time_evals=500)
    for k, v in need.items():
        if c.get(k, 0) < v:
            reasons.append(f"{k} observed only {c.get(k, 0)} times (< {v})")
    return reasons
