"""C13 - multi-parameter order bookkeeping (scale, merge, permute, vanish, substitute)."""
from __future__ import annotations

import re

import itertools
from collections import Counter
from fractions import Fraction

import numpy as np

from vf import matprob, oracles
from vf.util import GR, Violation, gr_zeros, jsonable, max_abs, rng_for

ID = "C13"
LEVEL = "exploration"
RULE = (
    "metamorphic relations between two real executions on G-mat problems (Hermitian and non-Hermitian, 1-3 parameters, optional "
    "second-order input terms, all value types / selections / designations): scale (perturbation k multiplied by c_k, powers of "
    "two compared BITWISE for float inputs, complex c in non-Hermitian mode), merge (two parameters identified: out_n = sum over "
    "n1+n2=n), permute (parameter axes reordered), vanish (an identically zero extra perturbation added at a random position), "
    "substitute (lambda -> lambda^p, p in {2,3}: out'_{pn} = out_n, zero elsewhere), symbolic (the same merge / substitute relations stated on a sympy matrix polynomial with mixed-order terms, by substituting the symbols before the library Taylor-expands it); each for H_tilde, U and U_inv at every order "
    "up to the bound. Non-trivial: perturbation couples an eliminated pair and order bound >= 2; distinct = (relation, structural signature)"
)
ASSUMPTIONS = [
    "relations other than power-of-two scaling are compared to 1e-9 x (size of terms) for floats (summation order differs between the two executions), exactly for exact inputs",
    "the relations also hold for the documented non-Hermitian recurrence, so known finding F4 (C05) does not interfere",
]
BUDGET = {"quick": dict(cases=500, seconds=300), "thorough": dict(cases=12000, seconds=540)}
CASE_TIMEOUT = 150
MONITORS = {"poison": True, "product": False, "solvers": False}
MONITOR_VERDICTS = ("fp", "nonfinite", "write")
RELATIONS = ["scale", "merge", "permute", "vanish", "substitute", "symbolic"]


def plan(tier, seed):
    rng = rng_for(13, seed)
    specs = []
    for i in range(BUDGET[tier]["cases"]):
        rel = RELATIONS[i % len(RELATIONS)]
        force = {}
        if rel == "merge":
            force["n_par"] = int(rng.choice([2, 2, 3]))
        elif rel == "permute":
            force["n_par"] = int(rng.choice([2, 3]))
        elif rel == "vanish":
            force["n_par"] = int(rng.choice([1, 2]))
        elif rel == "substitute":
            force["n_par"] = int(rng.choice([1, 1, 2]))
        elif rel == "symbolic":
            force = dict(n_par=int(rng.choice([2, 2, 3])), vtype="sympy", design="indices", container="dict", extra_orders=True, complex=False)
        spec = matprob.gen_spec(rng, tier, hermitian=bool(rng.random() < 0.6), **force)
        spec["max_total"] = min(spec["max_total"], 3)
        if rel == "symbolic":
            while sum(spec["sizes"]) > 5:
                spec["sizes"][int(np.argmax(spec["sizes"]))] -= 1
            spec["sizes"] = [x for x in spec["sizes"] if x > 0]
            spec["symbolic"] = False
            spec = matprob.normalise(spec)
            spec["max_total"] = 2
        spec["rel"] = rel
        spec["rs"] = int(rng.integers(0, 2**31))
        specs.append(spec)
    return specs


def _scaled(M, c, exact):
    if exact:
        out = M.copy()
        for idx in np.ndindex(*M.shape):
            out[idx] = M[idx] * c
        return out
    return M * c


def _zero(p):
    return gr_zeros((p.N, p.N)) if p.exact else np.zeros((p.N, p.N), complex)


def _run(p):
    out = matprob.call_library(p)
    return matprob.extract(out, p)


def _close(p, A, B, what, bitwise=False, scale=1.0):
    if p.exact:
        D = A - B
        for idx in np.ndindex(*D.shape):
            if D[idx] != 0:
                raise Violation(f"{what}: exact values differ at {idx}")
        return
    if bitwise:
        if not np.array_equal(A, B):
            raise Violation(f"{what}: not bitwise equal (max diff {np.max(np.abs(A - B)):.3e})")
        return
    err = float(np.max(np.abs(A - B), initial=0.0))
    # (rounding noise of a rotated / re-encoded input is amplified by |H'|/gap per order: oracles.noise_floor)
    m_ = re.search(r"_\(([0-9, ]+)\)$", what)
    n_ = tuple(int(x) for x in m_.group(1).replace(" ", "").strip(",").split(",")) if m_ else tuple(p.orders[-1])
    if not err <= 1e-9 * max(1.0, scale) + oracles.noise_floor(p, n_):
        raise Violation(f"{what}: differ by {err:.3e} (scale {scale:.3g})")


def run_case(spec):
    p = matprob.build(spec)
    rng = rng_for(13, spec["rs"])
    rel = spec["rel"]
    base = _run(p)
    names = ("H_tilde", "U", "U_inv")
    mag = max(oracles.magnitude(D) for D in base)
    counters = Counter({f"relation_{rel}": 1, "hermitian" if p.hermitian else "nonhermitian": 1, f"vtype_{spec['vtype']}": 1})
    T = matprob.terms(p)
    z = (0,) * p.n_par
    compared = 0
    if rel == "scale":
        if p.exact:
            cs = [GR(Fraction(int(rng.choice([-3, -2, 2, 3, 5])), int(rng.choice([1, 2, 3])))) for _ in range(p.n_par)]
            bitwise = False
        elif (p.hermitian or rng.random() < 0.5) and rng.random() < 0.5 and all(sum(n) <= 1 for n in p.terms_f) and not p.notes.get("units") and not p.notes.get("user_atol"):
            # very small / large factors (powers of two: bitwise): every *input* term stays far above `atol`, the
            # higher-order intermediates (c^n ~ 1e-12 ... 1e-27; the smallest input entry is 2^-33 ~ 1.2e-10) do not - no result may be pruned because it is small
            cs = [float(rng.choice([2.0**-20, 2.0**-25, 2.0**-30, -(2.0**-28), 2.0**10])) for _ in range(p.n_par)]
            bitwise = True
            counters["extreme_scale_factors"] += 1
        elif p.hermitian or rng.random() < 0.5:
            cs = [float(rng.choice([0.5, 2.0, 4.0, -2.0, 0.25, -0.5])) for _ in range(p.n_par)]
            bitwise = True
        else:
            cs = [complex(rng.choice([0.5, 2.0, -2.0, 1.5])) * (1j if rng.random() < 0.5 else 1) + (0.25 if rng.random() < 0.3 else 0) for _ in range(p.n_par)]
            bitwise = False
            counters["complex_scale"] += 1
        if p.notes.get("int_h0") or p.notes.get("input_basis_term"):
            # (input_basis_term: the base problem passes a term exactly as defined in the input basis, the twin passes the
            # rotation of its canonical form - equal up to rounding only)
            # integer-typed terms become float in the scaled twin: numpy multiplies int @ float and float @ float with
            # different kernels (summation order), so the two runs may differ in the last bit - compared with a tolerance
            bitwise = False

        def factor(n):
            f = GR(1) if p.exact else 1.0
            for c, k in zip(cs, n):
                for _ in range(k):
                    f = f * c
            return f

        tf = {n: (M if n == z else M * complex(factor(n))) for n, M in p.terms_f.items()}
        tx = {n: (M if n == z else _scaled(M, factor(n), True)) for n, M in p.terms_x.items()} if p.exact else None
        q = matprob.from_terms(p, tf, tx, p.n_par)
        got = _run(q)
        for name, A, B in zip(names, base, got):
            for n in p.orders:
                want = _scaled(A[n], factor(n), p.exact)
                _close(p, B[n], want, f"scale by {cs}: {name}_{n}", bitwise=bitwise, scale=mag * abs(complex(factor(n))))
                compared += 1
        if bitwise:
            counters["bitwise_scale_comparisons"] += compared
    elif rel == "merge":
        a, b = sorted(int(x) for x in rng.choice(p.n_par, size=2, replace=False))
        # new parameter list: drop b, parameter a carries both

        def merged(n):
            m = list(n)
            m[a] += m[b]
            del m[b]
            return tuple(m)

        tf, tx = {}, ({} if p.exact else None)
        for n, M in p.terms_f.items():
            k = merged(n)
            tf[k] = tf[k] + M if k in tf else M.copy()
        if p.exact:
            for n, M in p.terms_x.items():
                k = merged(n)
                tx[k] = tx[k] + M if k in tx else M.copy()
        q = matprob.from_terms(p, tf, tx, p.n_par - 1)
        got = _run(q)
        for name, A, B in zip(names, base, got):
            for k in q.orders:
                tot = _zero(p)
                complete = True
                for n in itertools.product(*[range(sum(k) + 1)] * p.n_par):
                    if merged(n) == k:
                        if n not in A:
                            complete = False
                            break
                        tot = tot + A[n]
                if not complete:
                    continue
                _close(p, B[k], tot, f"merge parameters {a},{b}: {name}_{k}", scale=mag)
                compared += 1
    elif rel == "permute":
        perm = [int(x) for x in rng.permutation(p.n_par)]
        if perm == list(range(p.n_par)):
            perm = perm[1:] + perm[:1]

        def pn(n):
            return tuple(n[perm[k]] for k in range(p.n_par))

        tf = {pn(n): M for n, M in p.terms_f.items()}
        tx = {pn(n): M for n, M in p.terms_x.items()} if p.exact else None
        q = matprob.from_terms(p, tf, tx, p.n_par)
        got = _run(q)
        for name, A, B in zip(names, base, got):
            for n in p.orders:
                _close(p, B[pn(n)], A[n], f"permute parameters {perm}: {name}_{n}", scale=mag)
                compared += 1
    elif rel == "vanish":
        pos = int(rng.integers(0, p.n_par + 1))

        def ins(n, v=0):
            return tuple(n[:pos]) + (v,) + tuple(n[pos:])

        tf = {ins(n): M for n, M in p.terms_f.items()}
        tx = {ins(n): M for n, M in p.terms_x.items()} if p.exact else None
        e = ins((0,) * p.n_par, 1)
        tf[e] = np.zeros((p.N, p.N), complex)
        if p.exact:
            tx[e] = gr_zeros((p.N, p.N))
        # (list container when only first-order terms are present: the vanishing entry then sits inside the list)
        q = matprob.from_terms(p, tf, tx, p.n_par + 1, max_total=min(spec["max_total"], 3 if p.n_par == 1 else 2),
                               container=str(rng.choice(["list", "list", "dict"])))
        counters[f"vanish_container_{q.spec['container']}"] += 1
        got = _run(q)
        for name, A, B in zip(names, base, got):
            for k in q.orders:
                n = tuple(k[:pos]) + tuple(k[pos + 1:])
                if k[pos] == 0:
                    if n in A:
                        _close(p, B[k], A[n], f"vanishing perturbation at position {pos}: {name}_{k}", scale=mag)
                        compared += 1
                else:
                    _close(p, B[k], _zero(p), f"vanishing perturbation at position {pos}: {name}_{k} must vanish", scale=mag)
                    compared += 1
    elif rel == "substitute":
        power = int(rng.choice([2, 3]))
        which = int(rng.integers(0, p.n_par))

        def sub(n):
            return tuple(v * power if k == which else v for k, v in enumerate(n))

        tf = {sub(n): M for n, M in p.terms_f.items()}
        tx = {sub(n): M for n, M in p.terms_x.items()} if p.exact else None
        base_max = 2 if p.n_par == 1 else 1
        q = matprob.from_terms(p, tf, tx, p.n_par, max_total=base_max * power + (0 if p.n_par == 1 else 1), container="dict")
        q.orders = [k for k in itertools.product(*[range(base_max * power + 1) if i == which else range(base_max + 1) for i in range(p.n_par)])
                    if sum(v // power if i == which else v for i, v in enumerate(k)) <= base_max]
        q.orders = sorted(q.orders, key=lambda t: (sum(t), t))
        got = _run(q)
        for name, A, B in zip(names, base, got):
            for k in q.orders:
                if k[which] % power:
                    _close(p, B[k], _zero(p), f"substitute lambda->lambda^{power}: {name}_{k} must vanish", scale=mag)
                else:
                    n = tuple(v // power if i == which else v for i, v in enumerate(k))
                    if n not in A:
                        continue
                    _close(p, B[k], A[n], f"substitute lambda->lambda^{power}: {name}_{k}", scale=mag)
                compared += 1
    elif rel == "symbolic":
        # the same relations stated at the user level: a sympy matrix polynomial in the symbols, with the symbols
        # identified (x, y -> t) or substituted (x -> x**2) symbolically before the library Taylor-expands it
        import sympy
        from pymablock import block_diagonalize

        syms = [sympy.Symbol(f"x{k}", real=True) for k in range(p.n_par)]
        poly = sympy.zeros(p.N, p.N)
        for n, M in p.hamiltonian.items():
            mono = sympy.Integer(1)
            for sy, k in zip(syms, n):
                mono = mono * sy**k
            poly = poly + mono * M
        if set(syms) - poly.free_symbols:
            return dict(verdict="held", sig=["symbolic-skip"], nontrivial=False, counters={"symbolic_skipped_vanishing_term": 1}, sample=None)
        a, b = sorted(int(x) for x in rng.choice(p.n_par, size=2, replace=False))
        which = str(rng.choice(["merge", "substitute"]))
        kw = dict(p.kwargs)

        def run_poly(P, symbols, orders):
            try:
                outs = block_diagonalize(P, symbols=symbols, **kw)
            except Exception as e:  # noqa: BLE001
                raise Violation(f"block_diagonalize on the sympy matrix raised {type(e).__name__}: {e}")
            res = []
            one_subs = {sy: 1 for sy in symbols}
            for sidx in range(3):
                class V:  # substitute the perturbation symbols by 1 (coefficient x monomial by design)
                    def __init__(self, ser):
                        self.ser = ser
                    def __getitem__(self, item):
                        v = self.ser[item]
                        return v.subs(one_subs) if hasattr(v, "subs") else v
                res.append({n: matprob.assemble(V(outs[sidx]), n, p, True) for n in orders})
            return res

        full = run_poly(poly, syms, p.orders)
        # the matrix route must agree with the dict route first
        for name, A, B in zip(names, base, full):
            for n in p.orders:
                _close(p, B[n], A[n], f"sympy-matrix input vs dict input: {name}_{n}")
                compared += 1
        if which == "merge":
            t = sympy.Symbol("t", real=True)
            rest = [sy for k, sy in enumerate(syms) if k not in (a, b)]
            new_syms = [t if k == a else sy for k, sy in enumerate(syms) if k != b]
            Pm = poly.subs({syms[a]: t, syms[b]: t})
            q_orders = [o for o in itertools.product(range(3), repeat=p.n_par - 1) if sum(o) <= 2]
            got = run_poly(Pm, new_syms, q_orders)

            def merged(n):
                m = list(n)
                m[a] += m[b]
                del m[b]
                return tuple(m)

            for name, A, B in zip(names, full, got):
                for k in q_orders:
                    tot = _zero(p)
                    for n in p.orders:
                        if merged(n) == k:
                            tot = tot + A[n]
                    _close(p, B[k], tot, f"symbolic merge x{a}, x{b} -> t: {name}_{k}")
                    compared += 1
            counters["symbolic_merge"] += 1
        else:
            Ps = poly.subs({syms[a]: syms[a] ** 2})
            q_orders = [k for k in itertools.product(range(5), repeat=p.n_par) if (k[a] // 2 + (k[a] % 2) + sum(v for i, v in enumerate(k) if i != a)) <= 2 and k[a] <= 4]
            got = run_poly(Ps, syms, q_orders)
            for name, A, B in zip(names, full, got):
                for k in q_orders:
                    if k[a] % 2:
                        _close(p, B[k], _zero(p), f"symbolic x{a} -> x{a}**2: {name}_{k} must vanish")
                    else:
                        n = tuple(v // 2 if i == a else v for i, v in enumerate(k))
                        if n in A:
                            _close(p, B[k], A[n], f"symbolic x{a} -> x{a}**2: {name}_{k}")
                    compared += 1
            counters["symbolic_substitute"] += 1
    counters["elements_compared"] += compared
    nontrivial = oracles.perturbation_couples_eliminated(p) and spec["max_total"] >= 2
    return dict(verdict="held", sig=[rel] + matprob.signature(spec), nontrivial=nontrivial, counters=dict(counters), sample=dict(relation=rel, **matprob.sample_of(p)))


def finalize(c, tier, evaluations, distinct):
    reasons = []
    for r in RELATIONS:
        if c.get(f"relation_{r}", 0) < 40:
            reasons.append(f"relation {r} exercised only {c.get('relation_' + r, 0)} times")
    for k, v in dict(hermitian=100, nonhermitian=100, bitwise_scale_comparisons=500, elements_compared=5000, vtype_sympy=30, vtype_sparse=30, extreme_scale_factors=2).items():
        if c.get(k, 0) < v:
            reasons.append(f"{k} observed only {c.get(k, 0)} (< {v})")
    return reasons
