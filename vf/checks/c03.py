"""C03 - result is the unique least-action (Schrieffer-Wolff) transformation."""
import numpy as np

from vf import matprob, oracles
from vf.checks import _herm
from vf.checks._herm import BUDGET, CASE_TIMEOUT, MONITORS, MONITOR_VERDICTS  # noqa: F401
from vf.models.refsolve import ref_solve
from vf.util import Violation

ID = "C03"
LEVEL = "exploration"
RULE = (
    "same generator as C01 (independent seed stream). Oracle 1: the kept part of (U_n - U^dagger_n) is zero for every n >= 1. "
    "Oracle 2: H_tilde, U, U^dagger equal the output of the reference solver R1 (vf/models/refsolve.py: solves unitarity, "
    "elimination and gauge order by order on full matrices, multiplying by H_0 explicitly; shares no code with the library), "
    "with == in exact Gaussian-rational arithmetic for sympy inputs and to 1e-9 x (size of terms) for floats. Non-trivial: the "
    "perturbation couples an eliminated pair, order bound >= 2; 'gauge_sensitive' counts cases that have a kept off-diagonal "
    "position (where a different gauge would be visible)"
)
ASSUMPTIONS = _herm.ASSUMPTIONS + ["the reference solver itself is trusted; it agreed with the library on every case of the unchanged tree"]


def plan(tier, seed):
    return _herm.plan(tier, seed, 3)


def _oracle(p, Ht, U, G):
    oracles.check_gauge(p, U, G)
    ref = ref_solve(matprob.terms(p), p.keep, p.orders, hermitian=True, exact=p.exact)
    bad = oracles.compare_with(p, (Ht, U, G), ref, names=("H_tilde", "U", "U^dagger"))
    if bad:
        raise Violation(bad)
    off_kept = bool(np.any(p.keep & ~np.eye(p.N, dtype=bool)))
    return {"orders_checked": len(p.orders), "gauge_sensitive": int(off_kept)}


def run_case(spec):
    return _herm.run(spec, _oracle)


def finalize(c, tier, evaluations, distinct):
    r = _herm.finalize_common(c, tier, evaluations, distinct)
    if c.get("gauge_sensitive", 0) < 20:
        r.append("fewer than 20 gauge-sensitive cases")
    return r
