"""C09 - compiling a series mini-language algorithm preserves its meaning."""
from __future__ import annotations

import itertools
import linecache
import warnings
from collections import Counter

import numpy as np

from vf.models import dsl
from vf.util import Violation, jsonable, rng_for

ID = "C09"
LEVEL = "translation_validation"
RULE = (
    "generated well-founded programmes in the documented mini-language: 2-6 series with start in {0, 1, '<input>_0', none}, "
    "hermitian / antihermitian markers (only on series that are so by construction), statements guarded by diagonal / offdiagonal in "
    "every order (also diagonal ... offdiagonal ... diagonal) and unguarded, sums, differences, unary minus, integer division, .adj, "
    "conditional expressions over scope flags (also indexed by index[0]), `zero`, scope functions f(expr) and f('series') under every "
    "guard and nested, custom diag/offdiag selections, declared 2- and 3-factor Cauchy products with and without `hermitian` (X^dagger X "
    "shapes); same-order dependencies form a DAG and recursion only runs through products of start = 0 series. Each programme is "
    "compiled by the real series_computation on random block inputs (zero sentinels, 1-2 infinite dimensions, 1-3 blocks of different "
    "sizes); EVERY element of EVERY series (outputs, intermediates whose terms get deleted, products) up to the order bound is "
    "requested in random order, up to 3 times, and compared with the direct interpreter R5 (vf/models/dsl.py, own ast walk, plain "
    "memoised recursion, marker-free reading, no deletion, no Hermitian shortcuts). Differentials inside the library: deletion of "
    "once-used terms disabled, linear-operator mode on the last block vs dense, shipped algorithms `main` / `nonhermitian` against R5 "
    "under all flag combinations (two_block_optimized, commuting_blocks). Non-trivial: programme with >= 1 product, >= 1 guard and "
    ">= 3 series; distinct = programme text"
)
ASSUMPTIONS = [
    "the interpreter vf/models/dsl.py and the generator's well-foundedness construction are the trusted base",
    "float comparison 1e-9 x size of terms; sentinels must agree up to numerically-zero arrays",
]
BUDGET = {"quick": dict(cases=4000, seconds=300), "thorough": dict(cases=60000, seconds=540)}
CASE_TIMEOUT = 120
MONITORS = {"product": True, "solvers": False}
MONITOR_VERDICTS = ("pending", "product")
_COUNTER = itertools.count()


def plan(tier, seed):
    rng = rng_for(9, seed)
    kinds = ["generated"] * 7 + ["shipped", "generated_linop", "shipped"]
    return [dict(kind=kinds[i % len(kinds)], case=int(rng.integers(0, 2**31))) for i in range(BUDGET[tier]["cases"])]


# ---------------------------------------------------------------------------------------------
class Gen:
    """Random well-founded programme."""

    def __init__(self, rng, linop_safe=False):
        self.rng = rng
        self.linop_safe = linop_safe
        self.inputs = ["A", "B"]  # B is Hermitian by construction
        self.series = []  # dicts: name, start, marker, herm ('h'/'a'/None), stmts
        self.products = {}  # name -> hermitian flag
        self.flags = dict(flag_a=bool(rng.integers(0, 2)), flag_b=bool(rng.integers(0, 2)))
        self.uses_funcs = False
        self.features = Counter()

    # -- atoms available to series number m (same-order DAG: inputs, earlier series, admissible products)
    def atoms(self, m):
        # series that start with the identity sentinel are only outputs / product factors: `one` supports no arithmetic
        names = list(self.inputs) + [s["name"] for s in self.series[:m] if s["start"] != 1]
        return names

    def adjointable(self, m):
        """`one` supports no methods (documented): series starting with the identity are never adjointed."""
        return list(self.inputs) + [s["name"] for s in self.series[:m] if s["start"] != 1]

    def start0(self, name):
        return any(s["name"] == name and s["start"] == 0 for s in self.series) or name in self.future_start0

    def product_atom(self, m):
        rng = self.rng
        avail = self.atoms(m)
        rec = [n for n in self.all_names if n in self.future_start0 or any(s["name"] == n and s["start"] == 0 for s in self.series)]
        # (linear-operator mode: only two-factor products, as in the shipped algorithms - the lower-left block of a
        # three-factor product would need the raw mixed array/operator diagonal block of the inner product)
        k = 2 if (rng.random() < 0.75 or self.linop_safe) else 3
        if rec and rng.random() < 0.5:
            # recursion through products: every factor has start = 0 (may be later series, or the series itself)
            terms = [rec[int(rng.integers(len(rec)))] for _ in range(k)]
            self.features["recursive_product"] += 1
        else:
            terms = [avail[int(rng.integers(len(avail)))] for _ in range(k)]
        name = " @ ".join(terms)
        if name not in self.products:
            self.products[name] = False
        self.features[f"product_{k}"] += 1
        return f'"{name}"'

    def herm_product_atom(self, m):
        """X^dagger @ X with X an available series: needs the helper series 'Xd' := "X".adj defined earlier."""
        cands = [s for s in self.series[:m] if s.get("adj_of")]
        if not cands:
            return None
        s = cands[int(self.rng.integers(len(cands)))]
        if self.rng.random() < 0.5 and not self.linop_safe:
            # three factors: X^dagger @ B @ X with the Hermitian input B in the middle
            name = f'{s["name"]} @ B @ {s["adj_of"]}'
            self.features["hermitian_product_3"] += 1
        else:
            name = f'{s["name"]} @ {s["adj_of"]}'
        self.products[name] = True
        self.features["hermitian_product"] += 1
        return f'"{name}"'

    def expr(self, m, depth=0, herm=None):
        rng = self.rng
        r = rng.random()
        avail = self.atoms(m)
        if depth >= 2 or r < 0.3:
            a = avail[int(rng.integers(len(avail)))]
            return f'"{a}"' + (".adj" if rng.random() < 0.3 and a in self.adjointable(m) else "")
        if r < 0.45:
            if self.rng.random() < 0.3:
                h = self.herm_product_atom(m)
                if h:
                    return h
            return self.product_atom(m)
        if r < 0.6:
            op = "+" if rng.random() < 0.6 else "-"
            return f"({self.expr(m, depth + 1)} {op} {self.expr(m, depth + 1)})"
        if r < 0.68:
            return f"-{self.expr(m, depth + 1)}"
        if r < 0.78:
            return f"{self.expr(m, depth + 1)} / {int(rng.choice([2, -2, 3]))}"
        if r < 0.86:
            self.features["conditional"] += 1
            c = ["flag_a", "flag_b", "per_block[index[0]]"][int(rng.integers(3))]
            alt = "zero" if rng.random() < 0.5 else self.expr(m, depth + 1)
            return f"({alt} if {c} else {self.expr(m, depth + 1)})"
        if r < 0.95 and not self.linop_safe or r < 0.9:
            self.uses_funcs = True
            if rng.random() < 0.4:
                self.features["function_of_series"] += 1
                adjo = self.adjointable(m)
                tgt = adjo[int(rng.integers(len(adjo)))]
                if False and rng.random() < 0.3 and self.products:
                    tgt = list(self.products)[int(rng.integers(len(self.products)))]
                    if not self._product_ok_for(tgt, m):
                        tgt = avail[int(rng.integers(len(avail)))]
                return f'pick("{tgt}")'
            self.features["function_of_expr"] += 1
            inner = self.expr(m, depth + 1)
            if rng.random() < 0.3:
                self.features["nested_function"] += 1
                return f"triple(scale({inner}))"
            return f"{['triple', 'scale'][int(rng.integers(2))]}({inner})"
        h = self.herm_product_atom(m)
        return h if h else f'"{avail[int(rng.integers(len(avail)))]}"'

    def _product_ok_for(self, pname, m):
        terms = pname.split(" @ ")
        avail = set(self.atoms(m))
        return all(t in avail for t in terms) or all(self.start0(t) for t in terms)

    def build(self):
        rng = self.rng
        n_series = int(rng.integers(2, 7))
        self.all_names = [f"S{q}" for q in range(n_series)]
        starts, styles = [], []
        for q in range(n_series):
            st = [0, 0, 0, 1, "A_0", None][int(rng.integers(6))]
            style = int(rng.integers(6))
            if style == 0 and q > 0:
                st = None  # adjoint helper: no start value
            elif style == 1:
                st = 0 if st in (1, "A_0") else st  # (anti)hermitian by construction: start 0 or none
            starts.append(st)
            styles.append(style)
        self.future_start0 = {self.all_names[q] for q in range(n_series) if starts[q] == 0}
        for q in range(n_series):
            name = self.all_names[q]
            start = starts[q]
            stmts = []
            style = styles[q]
            s = dict(name=name, start=start, marker=None, stmts=stmts)
            if style == 0 and q > 0:
                # helper: adjoint copy of an earlier series (enables X^dagger @ X hermitian products)
                base = self.adjointable(q)[int(rng.integers(len(self.adjointable(q))))]
                stmts.append((None, f'"{base}".adj'))
                s["adj_of"] = base
            elif style == 1:
                # (anti)hermitian by construction, with marker
                base = self.expr(q, 1)
                anti = rng.random() < 0.4
                s["marker"] = "antihermitian" if anti else "hermitian"
                sym = f"({base}) {'-' if anti else '+'} ({base}).adj" if False else None
                # build T +/- T.adj from plain atoms so that the construction is exact
                a = self.adjointable(q)[int(rng.integers(len(self.adjointable(q))))]
                op = "-" if anti else "+"
                body = f'("{a}" {op} "{a}".adj) / 2'
                pos = int(rng.integers(4))
                if pos == 3:
                    # the marker only defines the lower blocks: the diagonal blocks may be anything (not (anti)Hermitian)
                    stmts.append(("marker", s["marker"]))
                    stmts.append(("diagonal", self.expr(q, 1)))
                    stmts.append(("offdiagonal", body))
                    self.features["marker_generic_diagonal"] += 1
                elif pos == 0:
                    stmts.append(("marker", s["marker"]))
                    stmts.append((None, body))
                elif pos == 1:
                    stmts.append(("marker", s["marker"]))
                    stmts.append(("diagonal", body))
                    stmts.append(("offdiagonal", body))
                else:
                    stmts.append(("marker", s["marker"]))
                    stmts.append(("offdiagonal", body))
                    stmts.append(("diagonal", f'"B" + {body}' if not anti else body))
                self.features["marker"] += 1
            else:
                n_st = int(rng.integers(1, 4))
                guards = [[None, "diagonal", "offdiagonal"][int(rng.integers(3))] for _ in range(n_st)]
                if rng.random() < 0.2:
                    guards = ["diagonal", "offdiagonal", "diagonal"][:max(2, n_st)]
                    self.features["guard_sandwich"] += 1
                for gd in guards:
                    stmts.append((gd, self.expr(q)))
                    if gd:
                        self.features[f"guard_{gd}"] += 1
                if rng.random() < 0.2:
                    # a final statement for the lower-triangle blocks only (summed with what the earlier ones give)
                    stmts.append(("lower", self.expr(q)))
                    self.features["guard_lower"] += 1
            self.series.append(s)
        outputs = [self.all_names[int(k)] for k in sorted(rng.choice(n_series, size=int(rng.integers(1, min(3, n_series) + 1)), replace=False))]
        self.outputs = outputs
        return self

    def source(self, fname):
        lines = [f"def {fname}():"]
        for s in self.series:
            lines.append(f'    with "{s["name"]}":')
            if s["start"] is not None:
                lines.append(f"        start = {s['start']!r}" if not isinstance(s["start"], str) else f'        start = "{s["start"]}"')
            wrote = False
            for gd, e in s["stmts"]:
                wrote = True
                if gd == "marker":
                    lines.append(f"        {e}")
                elif gd is None:
                    lines.append(f"        {e}")
                else:
                    lines.append(f"        if {gd}:")
                    lines.append(f"            {e}")
            if not wrote:
                lines.append("        pass")
            lines.append("")
        for name, herm in self.products.items():
            lines.append(f'    with "{name}":')
            lines.append("        hermitian" if herm else "        pass")
            lines.append("")
        outs = ", ".join(f'"{o}"' for o in self.outputs)
        lines.append(f"    return {outs}")
        return "\n".join(lines) + "\n"


def compile_source(src, fname):
    filename = f"<c09-{next(_COUNTER)}-{fname}>"
    linecache.cache[filename] = (len(src), None, src.splitlines(True), filename)
    ns = {"__name__": "c09_generated"}
    exec(compile(src, filename, "exec"), ns)
    return ns[fname]


# ---------------------------------------------------------------------------------------------
def make_inputs(rng, nb, sizes, n_inf, orders):
    """Random input series A (generic) and B (Hermitian), with zero sentinels; values fixed per index."""
    vals = {"A": {}, "B": {}}
    for n in orders:
        for i in range(nb):
            for j in range(nb):
                if rng.random() < 0.25:
                    vals["A"][(i, j) + n] = None
                else:
                    vals["A"][(i, j) + n] = (rng.integers(-4, 5, size=(sizes[i], sizes[j])) + 1j * rng.integers(-4, 5, size=(sizes[i], sizes[j]))) / 4.0
        for i in range(nb):
            for j in range(i, nb):
                if rng.random() < 0.25:
                    v = None
                else:
                    v = (rng.integers(-4, 5, size=(sizes[i], sizes[j])) + 1j * rng.integers(-4, 5, size=(sizes[i], sizes[j]))) / 4.0
                    if i == j:
                        v = (v + v.conj().T) / 2
                vals["B"][(i, j) + n] = v
                vals["B"][(j, i) + n] = None if v is None else v.conj().T
    return vals


def lib_scope(flags, nb, sizes, masks):
    from pymablock.series import BlockSeries, zero
    from sympy.physics.quantum import Dagger

    def val(x, index):
        return x[index] if isinstance(x, BlockSeries) else x

    def triple(x, index):
        v = val(x, index)
        return zero if v is zero else 3 * v

    def scale(x, index):
        v = val(x, index)
        return zero if v is zero else (index[0] + 2) * v

    def pick(x, index):
        v = x[(index[1], index[0], *index[2:])]
        return zero if v is zero else Dagger(v)

    scope = dict(triple=triple, scale=scale, pick=pick, per_block=[bool((b + flags["flag_a"]) % 2) for b in range(nb)], **flags)
    if masks is not None:
        def diag(x, index):
            v = val(x, index)
            return zero if v is zero else v * masks[index[0]]

        def offdiag(x, index):
            v = val(x, index)
            return zero if v is zero else v * (1 - masks[index[0]])

        scope["diag"], scope["offdiag"] = diag, offdiag
    return scope


def ref_scope(flags, nb, sizes, masks):
    Z = dsl.ZERO

    def val(x, index):
        return x[index] if isinstance(x, dsl.SeriesHandle) else x

    def triple(x, index):
        v = val(x, index)
        return Z if v is Z else 3 * v

    def scale(x, index):
        v = val(x, index)
        return Z if v is Z else (index[0] + 2) * v

    def pick(x, index):
        v = x[(index[1], index[0], *index[2:])]
        return Z if v is Z else dsl.adj(v)

    scope = dict(triple=triple, scale=scale, pick=pick, per_block=[bool((b + flags["flag_a"]) % 2) for b in range(nb)], **flags)
    if masks is not None:
        def diag(x, index):
            return Z if x is Z else x * masks[index[0]]

        def offdiag(x, index):
            return Z if x is Z else x * (1 - masks[index[0]])

        scope["diag"], scope["offdiag"] = diag, offdiag
    return scope


def densify(v, shape):
    from pymablock.series import one, zero
    from scipy.sparse.linalg import LinearOperator

    if v is zero or v is dsl.ZERO:
        return None
    if v is one or v is dsl.ONE:
        return np.eye(shape[0], dtype=complex) if shape[0] == shape[1] else "one"
    if isinstance(v, LinearOperator):
        return np.asarray(v @ np.eye(shape[1], dtype=complex))
    return np.asarray(v, complex)


def compare_all(lib_series, interp, names, nb, sizes, orders, rng, counters, label, repeats=True):
    reqs = [(nm, i, j, n) for nm in names for i in range(nb) for j in range(nb) for n in orders]
    order = list(rng.permutation(len(reqs)))
    if repeats:
        order += [order[int(k)] for k in rng.integers(0, len(order), size=len(order) // 2)]
    for q in order:
        nm, i, j, n = reqs[q]
        try:
            a = lib_series[nm][(i, j) + n]
        except Exception as e:  # noqa: BLE001
            msgs, cur = [], e
            while cur is not None:
                msgs.append(f"{type(cur).__name__}: {cur}")
                cur = cur.__cause__
            raise Violation(f"{label}: requesting {nm}[{i},{j},{n}] raised {msgs[-1]} (outer: {msgs[0][:120]})")
        b = interp.get(nm, (i, j) + n)
        shape = (sizes[i], sizes[j])
        da, db = densify(a, shape), densify(b, shape)
        counters["elements_compared"] += 1
        if da is None or db is None:
            x = da if da is not None else db
            if x is not None and (isinstance(x, str) or np.abs(x).max(initial=0) > 1e-9):
                raise Violation(f"{label}: {nm}[{i},{j},{n}] is {'absent' if da is None else 'present'} in the compiled computation but {'absent' if db is None else 'present'} in the direct interpretation")
            continue
        if isinstance(da, str) or isinstance(db, str):
            if not (isinstance(da, str) and isinstance(db, str)):
                raise Violation(f"{label}: identity sentinel mismatch at {nm}[{i},{j},{n}]")
            continue
        if da.shape != db.shape:
            raise Violation(f"{label}: {nm}[{i},{j},{n}] has shape {da.shape}, interpreter {db.shape}")
        err = float(np.abs(da - db).max(initial=0))
        if err > 1e-9 * max(1.0, float(np.abs(db).max(initial=0))):
            raise Violation(f"{label}: {nm}[{i},{j},{n}] differs from the direct interpretation by {err:.3e}")
        counters["values_compared"] += 1


# ---------------------------------------------------------------------------------------------
def run_generated(spec, counters, linop):
    from pymablock import algorithm_parsing as ap
    from pymablock.series import BlockSeries, zero
    from pymablock.linalg import aslinearoperator

    rng = rng_for(9, spec["case"])
    g = Gen(rng, linop_safe=linop).build()
    # every generated programme is a function called `algorithm` in the same (pseudo-)module, as when a user edits
    # and re-runs a definition: compilation must depend on the function object, not on its name
    fname = "algorithm"
    src = g.source(fname)
    nb = int(rng.integers(1, 4))
    sizes = [int(rng.integers(1, 4)) for _ in range(nb)]
    n_inf = int(rng.integers(1, 3))
    box = (2,) if n_inf == 1 else (1, 1)
    orders = list(itertools.product(*[range(b + 1) for b in box]))
    vals = make_inputs(rng, nb, sizes, n_inf, orders)
    use_masks = rng.random() < 0.4 and not linop
    masks = None
    if use_masks:
        masks = []
        for s in sizes:
            m = (rng.random((s, s)) < 0.5).astype(float)
            m = np.triu(m) + np.triu(m, 1).T
            masks.append(m)
        counters["custom_diag_offdiag"] += 1

    def mk_inputs():
        out = {}
        for nm in ("A", "B"):
            def ev(*index, nm=nm):
                index = tuple(int(x) for x in index)
                v = vals[nm].get(index)
                return zero if v is None else v
            out[nm] = BlockSeries(eval=ev, shape=(nb, nb), n_infinite=n_inf, name=nm)
        return out

    def compile_run(scope_extra=None):
        func = compile_source(src, fname)
        scope = lib_scope(g.flags, nb, sizes, masks)
        scope.update(scope_extra or {})
        try:
            with warnings.catch_warnings():
                warnings.simplefilter("ignore")
                return ap.series_computation(mk_inputs(), func, scope=scope)
        except Exception as e:  # noqa: BLE001
            raise Violation(f"series_computation raised {type(e).__name__}: {e} on programme\n{src}")

    prog = dsl.Program(compile_source(src, fname))
    interp = dsl.Interp(
        prog, {nm: (lambda idx, nm=nm: dsl.ZERO if vals[nm].get(tuple(int(x) for x in idx)) is None else vals[nm][tuple(int(x) for x in idx)]) for nm in ("A", "B")},
        nb, n_inf, scope=ref_scope(g.flags, nb, sizes, masks), ignore_markers=True,
    )
    names = ["A", "B"] + [s["name"] for s in g.series] + list(g.products)
    before = counters.get("_", 0)
    try:
        series, linser = compile_run()
        compare_all(series, interp, names, nb, sizes, orders, rng, counters, "compiled vs interpreter")
    except Violation as v:
        raise Violation(str(v) + f"\nprogramme:\n{src}")
    counters["programs"] += 1
    # differential 1: deletion of once-used intermediate terms disabled
    orig = ap._find_delete_candidates
    try:
        from collections import defaultdict

        ap._find_delete_candidates = lambda *a, **k: defaultdict(set)
        getattr(ap._parse_algorithm, "cache_clear", lambda: None)()
        series2, _ = compile_run()
        compare_all(series2, interp, names, nb, sizes, orders, rng, counters, "deletion disabled vs interpreter", repeats=False)
        counters["deletion_differentials"] += 1
    except Violation as v:
        raise Violation(str(v) + f"\nprogramme:\n{src}")
    finally:
        ap._find_delete_candidates = orig
        getattr(ap._parse_algorithm, "cache_clear", lambda: None)()
    if linop and nb >= 1:
        # differential 2: linear-operator mode on the last block
        ulo = np.zeros((nb, nb), bool)
        ulo[-1, -1] = True
        try:
            series3, linser3 = compile_run(dict(use_linear_operator=ulo))
            compare_all(series3, interp, [s["name"] for s in g.series], nb, sizes, orders, rng, counters, "linear-operator mode vs interpreter", repeats=False)
            counters["linop_differentials"] += 1
        except Violation as v:
            raise Violation(str(v) + f"\nprogramme:\n{src}")
    for k, v in g.features.items():
        counters[f"construct_{k}"] += v
    nontrivial = len(g.products) >= 1 and len(g.series) >= 3 and any(gd in ("diagonal", "offdiagonal") for s in g.series for gd, _ in s["stmts"])
    return nontrivial, src, dict(programme=src, blocks=sizes, n_inf=n_inf, flags=g.flags)


def run_shipped(spec, counters):
    from pymablock.algorithm_parsing import series_computation
    from pymablock.algorithms import main, nonhermitian
    from pymablock.block_diagonalization import solve_sylvester_diagonal
    from pymablock.series import BlockSeries, zero

    rng = rng_for(9, spec["case"], 4)
    algo = main if rng.random() < 0.5 else nonhermitian
    nb = int(rng.integers(1, 4))
    sizes = [int(rng.integers(1, 4)) for _ in range(nb)]
    n_inf = int(rng.integers(1, 3))
    E = [np.arange(s) * 1.0 + 5.0 * b for b, s in enumerate(sizes)]
    herm = algo is main
    terms = {}
    torders = [(1,), (2,)] if n_inf == 1 else [(1, 0), (0, 1), (1, 1)]
    for n in torders:
        for i in range(nb):
            for j in range(nb):
                if herm and j < i:
                    continue
                a = (rng.integers(-4, 5, size=(sizes[i], sizes[j])) + 1j * rng.integers(-4, 5, size=(sizes[i], sizes[j]))) / 4.0
                if herm and i == j:
                    a = a + a.conj().T
                terms[(i, j) + n] = a
                if herm and i != j:
                    terms[(j, i) + n] = a.conj().T

    def ev(*index):
        index = tuple(int(x) for x in index)
        i, j, *n = index
        if not any(n):
            return np.diag(E[i]).astype(complex) if i == j else zero
        return terms.get(index, zero)

    tbo = bool(rng.integers(0, 2)) if nb == 2 else False
    cb = [bool(rng.integers(0, 2)) for _ in range(nb)]
    flags = dict(two_block_optimized=tbo, commuting_blocks=cb)
    ss = solve_sylvester_diagonal(tuple(E))

    def ss_ref(Y, index):
        if Y is dsl.ZERO:
            return dsl.ZERO
        if isinstance(Y, dsl.SeriesHandle):
            Y = Y[index]
        i, j = index[:2]
        dE = E[i][:, None] - E[j][None, :]
        with np.errstate(all="ignore"):
            return Y * np.where(np.abs(dE) > 1e-12, 1 / np.where(dE == 0, 1, dE), 0)

    H = BlockSeries(eval=ev, shape=(nb, nb), n_infinite=n_inf, name="H")
    try:
        series, _ = series_computation({"H": H}, algorithm=algo, scope=dict(solve_sylvester=ss, **flags))
    except Exception as e:  # noqa: BLE001
        raise Violation(f"series_computation({algo.__name__}) raised {type(e).__name__}: {e}")
    prog = dsl.Program(algo)
    interp = dsl.Interp(prog, {"H": lambda idx: dsl.ZERO if ev(*idx) is zero else ev(*idx)}, nb, n_inf, scope=dict(solve_sylvester=ss_ref, **flags), ignore_markers=True)
    names = list(prog.series) + list(prog.products)
    orders = [(n,) for n in range(4)] if n_inf == 1 else [(a, b) for a in range(3) for b in range(3) if a + b <= 2]
    compare_all(series, interp, names, nb, sizes, orders, rng, counters, f"shipped {algo.__name__} {flags}")
    # flag differential: the unoptimised setting must give the same outputs
    series_u, _ = series_computation({"H": BlockSeries(eval=ev, shape=(nb, nb), n_infinite=n_inf, name="H")}, algorithm=algo,
                                     scope=dict(solve_sylvester=ss, two_block_optimized=False, commuting_blocks=[False] * nb))
    for nm in ("H_tilde", "U", "U†"):
        for i in range(nb):
            for j in range(nb):
                for n in orders:
                    a, b = densify(series[nm][(i, j) + n], (sizes[i], sizes[j])), densify(series_u[nm][(i, j) + n], (sizes[i], sizes[j]))
                    a = np.zeros((sizes[i], sizes[j])) if a is None else a
                    b = np.zeros((sizes[i], sizes[j])) if b is None else b
                    if isinstance(a, str) or isinstance(b, str):
                        if a is not b and not (isinstance(a, str) and isinstance(b, str)):
                            raise Violation(f"flag differential: sentinel mismatch at {nm}[{i},{j},{n}]")
                        continue
                    if np.abs(a - b).max(initial=0) > 1e-9 * max(1.0, np.abs(b).max(initial=0)):
                        raise Violation(f"optimisation flags {flags} change {nm}[{i},{j},{n}] of {algo.__name__}")
                    counters["flag_differential_elements"] += 1
    counters[f"shipped_{algo.__name__}"] += 1
    counters["programs"] += 1
    return True, f"{algo.__name__}-{nb}-{sizes}-{n_inf}-{tbo}-{cb}", dict(shipped=algo.__name__, blocks=sizes, n_inf=n_inf, flags=jsonable(flags))


def run_case(spec):
    counters = Counter()
    if spec["kind"] == "shipped":
        nt, sig, sample = run_shipped(spec, counters)
    else:
        nt, sig, sample = run_generated(spec, counters, linop=spec["kind"] == "generated_linop")
    return dict(verdict="held", sig=sig, nontrivial=bool(nt), counters=dict(counters), sample=jsonable(sample))


def finalize(c, tier, evaluations, distinct):
    reasons = []
    need = dict(programs=300, elements_compared=30000, deletion_differentials=100, linop_differentials=20, deletions=1000,
                shipped_main=20, shipped_nonhermitian=20, flag_differential_elements=1000, construct_marker=50, construct_conditional=50,
                construct_function_of_series=30, construct_function_of_expr=50, construct_nested_function=10, construct_product_2=100,
                construct_product_3=30, construct_recursive_product=50, construct_hermitian_product=30, construct_hermitian_product_3=10, construct_guard_diagonal=100, construct_guard_offdiagonal=100,
                construct_guard_sandwich=20, construct_guard_lower=20, construct_marker_generic_diagonal=20, custom_diag_offdiag=50)
    for k, v in need.items():
        if c.get(k, 0) < v:
            reasons.append(f"{k} observed only {c.get(k, 0)} (< {v})")
    return reasons


def extra_coverage(c, evaluations):
    return {"programs": int(c.get("programs", 0)), "disagreements_checked": int(c.get("elements_compared", 0))}
