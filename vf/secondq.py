"""G-2q: generator of second-quantised problems and their comparison with the truncated-matrix
block diagonalisation (used by C07 and by the `2q` kind of C16)."""
from __future__ import annotations

import itertools
import warnings

import numpy as np
import sympy
from sympy.physics.quantum import Dagger, pauli
from sympy.physics.quantum.boson import BosonOp
from sympy.physics.quantum.fermion import FermionOp

from vf.models.refsolve import ref_solve
from vf.util import Inconclusive, Violation

R = sympy.Rational
OMEGAS = [R(3, 2), R(47, 10), R(23, 7), R(101, 30), R(7, 3), R(53, 11)]


def modes(rng, family):
    """Returns the list of modes; now and then two modes of different type share a label (they are independent
    operators: BosonOp("a") and FermionOp("a"))."""
    ops = _modes(rng, family)
    if len(ops) >= 2 and rng.random() < 0.2:
        i = int(rng.integers(len(ops)))
        others = [j for j in range(len(ops)) if type(ops[j]) is not type(ops[i])]
        if others:
            j = others[int(rng.integers(len(others)))]
            ops[j] = type(ops[j])(ops[i].name)
    return ops


def _modes(rng, family):
    from pymablock.number_ordered_form import LadderOp

    a, b = BosonOp("a"), BosonOp("b")
    c1, c2, c3 = FermionOp("c1"), FermionOp("c2"), FermionOp("c3")
    lad = LadderOp("l")
    s = pauli.SigmaMinus("s")
    if family == "bosons":
        return [a] + ([b] if rng.random() < 0.5 else [])
    if family == "fermions":
        return [c1, c2] + ([c3] if rng.random() < 0.5 else [])
    if family == "mixed":
        return [a, c1] + ([c2] if rng.random() < 0.4 else [])
    if family == "spin":
        return [a, s] if rng.random() < 0.7 else [s, c1]
    if family == "ladder":
        # Floquet-like: a ladder mode alone, with a boson, or with a two-level system / fermion
        return [lad] + [[], [a], [s], [c1], [s]][int(rng.integers(5))]
    return [a]


def gens_of(o):
    if isinstance(o, pauli.SigmaMinus):
        return o, pauli.SigmaPlus(o.name)
    return o, Dagger(o)


def random_h0(rng, ops, anharmonic=True):
    from pymablock.number_ordered_form import LadderOp, NumberOperator

    ws = [OMEGAS[int(k)] for k in rng.choice(len(OMEGAS), size=len(ops), replace=False)]
    H0 = sympy.Integer(0)
    for w, o in zip(ws, ops):
        n = NumberOperator(o)
        H0 = H0 + w * n
        if anharmonic and isinstance(o, BosonOp) and rng.random() < 0.4:
            H0 = H0 + R(1, int(rng.integers(3, 8))) * n**2
    return H0


def random_h1(rng, ops, max_terms=4):
    """Random Hermitian polynomial of degree <= 2: drives, hopping, pairing, number-dependent couplings."""
    from pymablock.number_ordered_form import NumberOperator

    terms = []
    cands = []
    for o in ops:
        lo, hi = gens_of(o)
        if not isinstance(o, FermionOp):
            cands.append(lo)  # drive  o + o^dagger   (a single fermion operator is parity odd: skip)
    for o1, o2 in itertools.combinations(ops, 2):
        l1, h1 = gens_of(o1)
        l2, h2 = gens_of(o2)
        cands += [h1 * l2, l1 * l2]  # hopping, pairing
    for o in ops:
        lo, hi = gens_of(o)
        if isinstance(o, BosonOp):
            cands.append(lo**2)
            cands.append(NumberOperator(o) * lo)
    # number-dependent (longitudinal) drives: N_other x (o + o^dagger), sigma_z x (o + o^dagger)
    for o1 in ops:
        if isinstance(o1, FermionOp) or isinstance(o1, pauli.SigmaMinus):
            continue
        l1, h1 = gens_of(o1)
        for o2 in ops:
            if o2 is o1:
                continue
            cands.append(NumberOperator(o2) * l1)
            if isinstance(o2, pauli.SigmaMinus):
                cands.append(pauli.SigmaZ(o2.name) * l1)
    if not cands:
        cands = [gens_of(ops[0])[0]]
    k = int(rng.integers(1, min(max_terms, len(cands)) + 1))
    deg = 1
    for idx in rng.choice(len(cands), size=k, replace=False):
        t = cands[int(idx)]
        coef = R(int(rng.integers(1, 5)), int(rng.integers(1, 4)))
        if rng.random() < 0.2:
            coef = coef * sympy.I
        terms.append(coef * t + sympy.conjugate(coef) * Dagger(t))
        deg = max(deg, 2 if t.is_Mul or t.is_Pow else 1)
    if rng.random() < 0.3:
        n = NumberOperator(ops[int(rng.integers(len(ops)))])
        terms.append(R(1, 2) * n)  # a number-conserving piece of the perturbation
    return sympy.Add(*terms), deg


def make_model(ops, low, order, deg, extra=0):
    from pymablock.number_ordered_form import LadderOp
    from vf.models.fock import Model

    reach = order * deg
    d = low + reach + 2 + extra
    L = reach + 1 + extra
    nbos = sum(isinstance(o, BosonOp) for o in ops)
    return Model(ops, d=d, L=L)


def low_states(M, low):
    from pymablock.number_ordered_form import LadderOp

    ok = np.ones(M.D, bool)
    for i, op in enumerate(M.ops):
        if isinstance(op, BosonOp):
            ok &= M.occ[:, i] <= low
        if isinstance(op, LadderOp):
            ok &= np.abs(M.occ[:, i]) <= 0
    return np.where(ok)[0]


def denote(M, v, subs, shape=None):
    """Matrix of a library output element (scalar expr, NOF, sympy Matrix of those, sentinels)."""
    from pymablock.series import one, zero

    if v is zero:
        return None
    if v is one:
        return "one"
    if isinstance(v, sympy.MatrixBase):
        blocks = [[M.expr(sympy.sympify(v[i, j]), subs) if v[i, j] != 0 else np.zeros((M.D, M.D), complex) for j in range(v.cols)] for i in range(v.rows)]
        return np.block(blocks)
    return M.expr(sympy.sympify(v), subs)


def sylvester_residual_case(rng, counters):
    """C16 `2q`: the second-quantised solver as an operator identity H_ii X - X H_jj = Y (scalar blocks)."""
    from pymablock.number_ordered_form import NumberOrderedForm as NOF
    from pymablock.second_quantization import solve_sylvester_2nd_quant
    from vf.models.fock import Model

    fam = str(rng.choice(["bosons", "fermions", "mixed", "spin", "ladder"]))
    ops = modes(rng, fam)
    from pymablock.number_ordered_form import generator_types

    ops = sorted(ops, key=lambda op: (generator_types.index(type(op)), str(op.name)))
    # the two sectors share the modes and differ by a constant (the typical matrix-valued H_0); a generic
    # offset keeps every pair of levels coupled by Y non-degenerate, as the property requires
    Hi = random_h0(rng, ops)
    Hj = Hi if rng.random() < 0.5 else Hi + R(1, 13)
    Y, deg = random_h1(rng, ops, max_terms=3)
    # drop number-conserving parts when H_i == H_j (no solution exists there by definition)
    Ynof = NOF.from_expr(Y, ops)
    if Hi == Hj:
        Ynof = Ynof.filter_terms([tuple(0 for _ in ops)], keep=False)
    if not Ynof.terms:
        return False, ["2q", "empty"], dict(kind="2q", note="empty right-hand side")
    with warnings.catch_warnings():
        warnings.simplefilter("ignore")
        try:
            solve = solve_sylvester_2nd_quant(([Hi], [Hj]))
            X = solve(sympy.Matrix([[Ynof]]), (0, 1, 1))[0, 0]
        except Exception as e:  # noqa: BLE001
            raise Violation(f"solve_sylvester_2nd_quant raised {type(e).__name__}: {e} for H_i={Hi}, H_j={Hj}, Y={Y}")
    M = Model(ops, d=9, L=6)
    hi, hj, y = M.expr(Hi), M.expr(Hj), M.nof(Ynof)
    x = M.expr(sympy.sympify(X)) if not isinstance(X, NOF) else M.nof(X)
    cols = M.safe_cols(deg + 1)
    # accidental degeneracy between levels that Y couples (anharmonic H_0, e.g. 3 N_a/2 + N_a^2/6 + 7 N_b/3 at n_a = 2 for
    # a^dagger b): no solution exists there - outside the solver's domain (the operator result has a pole at that level)
    Ei, Ej = np.diag(hi), np.diag(hj)
    coupled = np.abs(y[:, cols]) > 1e-12
    if np.any(coupled & (np.abs(Ei[:, None] - Ej[None, cols]) < 1e-9)):
        counters["sylvester_2q_accidental_degeneracy"] += 1
        return False, ["2q", "degenerate"], dict(kind="2q", note="coupled levels accidentally degenerate: outside the domain")
    res = (hi @ x - x @ hj - y)[:, cols]
    scale = max(1.0, float(np.abs(y).max(initial=0)), float(np.abs(x[:, cols]).max(initial=0)))
    err = float(np.abs(res).max(initial=0))
    counters["sylvester_2q_calls"] += 1
    if not np.isfinite(err) or err > 1e-8 * scale:
        raise Violation(f"second-quantised solver: M(H_i) M(X) - M(X) M(H_j) != M(Y) (err {err:.3e}) for H_i={Hi}, H_j={Hj}, Y={Ynof.as_expr()}, X={X}")
    return True, ["2q", fam, [str(o) for o in ops], str(Y)[:50]], dict(kind="2q", ops=[str(o) for o in ops], H_i=str(Hi), H_j=str(Hj), Y=str(Y))
