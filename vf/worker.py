"""Worker: runs one shard of a check's plan and streams one JSON line per case.

usage: python -m vf.worker <ID> <tier> <seed> <shard> <nshards> <outfile>
"""
from __future__ import annotations

import importlib
import json
import os
import signal
import sys
import time
import traceback

REPO = os.environ.get("VERIF_REPO", "/repo")


class CaseTimeout(BaseException):
    pass


def _alarm(signum, frame):
    raise CaseTimeout()


def origin():
    import pymablock

    path = os.path.realpath(pymablock.__file__)
    return path, path.startswith(os.path.realpath(REPO) + os.sep)


def run_one(pid: str, spec: dict) -> dict:
    """Run a single case with monitors installed (also used by --replay)."""
    from vf import monitors

    mod = importlib.import_module(f"vf.checks.{pid.lower()}")
    monitors.install()
    monitors.configure(getattr(mod, "MONITORS", {}))
    return _run_case(mod, spec, getattr(mod, "CASE_TIMEOUT", 120))


def _run_case(mod, spec, timeout) -> dict:
    from vf import monitors
    from vf.util import Violation, Inconclusive

    monitors.reset()
    t0 = time.time()
    signal.signal(signal.SIGALRM, _alarm)
    signal.alarm(int(timeout))
    try:
        res = mod.run_case(spec)
    except Violation as v:
        res = {"verdict": "violation", "detail": str(v), **v.extra}
    except Inconclusive as v:
        res = {"verdict": "inconclusive", "detail": str(v)}
    except CaseTimeout:
        res = {"verdict": "inconclusive", "detail": f"case watchdog ({timeout}s) fired"}
    except Exception:
        res = {"verdict": "inconclusive", "detail": "harness error: " + traceback.format_exc()[-1800:]}
    finally:
        signal.alarm(0)
    res.setdefault("verdict", "held")
    res.setdefault("counters", {})
    res.setdefault("nontrivial", False)
    res.setdefault("sig", None)
    # observations of the in-situ monitors during this case
    mcount, mviol = monitors.drain()
    for k, v in mcount.items():
        res["counters"][k] = res["counters"].get(k, 0) + v
    decisive = set(getattr(mod, "MONITOR_VERDICTS", ()))
    for kind, msg in mviol:
        res["counters"][f"monitor_violation_{kind}"] = res["counters"].get(f"monitor_violation_{kind}", 0) + 1
        if kind in decisive and res["verdict"] in ("held", "inconclusive"):
            res["verdict"] = "violation"
            res["detail"] = f"in-situ monitor [{kind}]: {msg}"
    res["t"] = round(time.time() - t0, 3)
    if res["verdict"] != "held":
        res["spec"] = spec
    return res


def main(argv) -> int:
    pid, tier, seed, shard, nshards, outfile = argv[0], argv[1], int(argv[2]), int(argv[3]), int(argv[4]), argv[5]
    deadline = float(os.environ.get("VERIF_DEADLINE", str(time.time() + 3600)))
    from vf import monitors

    mod = importlib.import_module(f"vf.checks.{pid.lower()}")
    monitors.install()
    monitors.configure(getattr(mod, "MONITORS", {}))
    path, ok = origin()
    plan = mod.plan(tier, seed)
    timeout = getattr(mod, "CASE_TIMEOUT", 120)
    with open(outfile, "w") as out:
        meta = {"kind": "meta", "origin": path, "origin_ok": ok, "planned": len(plan), "counters": {}}
        n_done = 0
        for i, spec in enumerate(plan):
            if i % nshards != shard:
                continue
            if time.time() > deadline:
                meta["counters"]["budget_exhausted"] = 1
                meta["counters"]["cases_skipped_by_budget"] = meta["counters"].get("cases_skipped_by_budget", 0) + 1
                continue
            res = _run_case(mod, spec, timeout)
            res["i"] = i
            out.write(json.dumps(res, default=str) + "\n")
            out.flush()
            n_done += 1
        out.write(json.dumps(meta, default=str) + "\n")
    return 0


if __name__ == "__main__":
    sys.exit(main(sys.argv[1:]))
