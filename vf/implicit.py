"""Generator of numeric problems for the implicit mode (C06, C16, C10) and their explicit twins.

H_0 = R diag(E) L^dagger with a random unitary (Hermitian) or well-conditioned biorthogonal (non-Hermitian)
basis; the first k basis vectors form 1..3 explicit blocks, the rest is the implicit subspace."""
from __future__ import annotations

import numpy as np
from scipy import sparse

from vf.util import rng_for


def gen(rng, tier="quick", **force):
    N = int(rng.integers(5, 11 if tier == "quick" else 15))
    n_exp = int(rng.choice([1, 1, 2, 2, 3]))
    sizes = [int(rng.integers(1, 4)) for _ in range(n_exp)]
    while sum(sizes) > N - 2:
        sizes[int(np.argmax(sizes))] -= 1
    sizes = [s for s in sizes if s > 0] or [1]
    spec = dict(
        N=N, sizes=sizes, hermitian=bool(rng.random() < 0.6), complex=bool(rng.integers(0, 2)), degenerate=bool(rng.random() < 0.4),
        n_par=int(rng.choice([1, 1, 2])), dtype=str(rng.choice(["f8", "f8", "f4_vecs", "mixed"])), fd=bool(rng.random() < 0.3),
        seed=int(rng.integers(0, 2**31)),
    )
    spec.update(force)
    # real non-symmetric H_0 with complex-conjugate eigenvalue pairs that are split between the explicit and
    # the implicit subspace (real dtype of H_0, complex eigenvectors)
    spec["real_pairs"] = bool((not spec["hermitian"]) and (not spec["complex"]) and rng.random() < 0.5)
    spec["interleaved"] = bool(spec["degenerate"] and rng.random() < 0.5)
    # two distinct levels of equal magnitude inside one explicit block: +E / -E (chiral or particle-hole symmetric
    # spectrum) or E / conj(E) (non-Hermitian)
    spec["mirror_pairs"] = bool((not spec["degenerate"]) and rng.random() < 0.35)
    # real H_0 and eigenvectors, first perturbation real, last perturbation complex (real hopping + imaginary spin-orbit term)
    spec["mixed_terms"] = bool((not spec["complex"]) and spec["n_par"] >= 2 and rng.random() < 0.5)
    # normal but non-Hermitian H_0 (unitary eigenbasis, complex eigenvalues): the explicit subspaces may then be
    # given as plain orthonormal bases V instead of (R, L) pairs although hermitian=False
    spec["normal"] = bool((not spec["hermitian"]) and spec["complex"] and rng.random() < 0.3)
    # eigenvectors of decoupled subsystems (sparse, disjoint supports) instead of dense random ones
    spec["structured"] = bool((not spec["real_pairs"]) and rng.random() < 0.4)
    spec.update(force)
    return spec


def structured_basis(rng, N, cplx, hermitian, mix=0.3):
    """Eigenbasis of a direct sum of small decoupled subsystems (sizes 1..4) in a permuted site basis, with the
    eigenvector columns shuffled: degenerate levels then typically consist of a localised and a more extended
    state with disjoint supports (identical decoupled dimers, a bound state next to a band, ...)."""
    def rnd(shape):
        a = rng.normal(size=shape)
        return a + 1j * rng.normal(size=shape) if cplx else a

    sizes, left = [], N
    while left > 0:
        s_ = int(min(left, rng.integers(1, 5)))
        sizes.append(s_)
        left -= s_
    R = np.zeros((N, N), complex if cplx else float)
    off = 0
    for s_ in sizes:
        Qb = np.linalg.qr(rnd((s_, s_)))[0]
        if rng.random() < 0.5 and (cplx or s_ in (1, 2, 4)):
            # translation-invariant ring / symmetric dimer: every eigenvector spread evenly over the subsystem
            if cplx:
                Qb = np.exp(2j * np.pi * np.outer(np.arange(s_), np.arange(s_)) / s_) / np.sqrt(s_)
                Qb = Qb * np.exp(1j * rng.uniform(0, 2 * np.pi, size=s_))[None, :]
            else:
                h2 = np.array([[1.0, 1.0], [1.0, -1.0]])
                Qb = {1: np.eye(1), 2: h2, 4: np.kron(h2, h2)}[s_] / np.sqrt(s_) * rng.choice([-1.0, 1.0], size=s_)[None, :]
        if not hermitian:
            Qb = Qb @ (np.eye(s_) + mix * np.triu(rnd((s_, s_)), 1))
        R[off:off + s_, off:off + s_] = Qb
        off += s_
    # columns round-robin over the subsystems: neighbouring columns (the degenerate explicit levels) belong to
    # different subsystems, i.e. have disjoint supports and in general different localisation
    owner = np.repeat(np.arange(len(sizes)), sizes)
    rank = np.concatenate([np.arange(s_) for s_ in sizes])
    cols = np.lexsort((rng.permutation(len(sizes))[owner], rank))
    R = R[rng.permutation(N)][:, cols]
    return R


def build(spec):
    rng = rng_for(6, spec["seed"])
    N, sizes = spec["N"], spec["sizes"]
    k = sum(sizes)
    hermitian, cplx = spec["hermitian"], spec["complex"]

    def rnd(shape):
        a = rng.normal(size=shape)
        return a + 1j * rng.normal(size=shape) if cplx else a

    # spectrum: half-integer grid, well separated; degeneracies inside explicit blocks
    E = rng.choice(np.arange(0, 4 * N), size=N, replace=False).astype(complex) * 0.5
    off = 0
    for s in sizes:
        if s >= 2 and spec["degenerate"]:
            # (interleaved: the two members of the level are separated by another level, e.g. spin-degenerate H_0 with the
            # basis ordered "all up, then all down")
            E[off + (2 if (s >= 3 and spec.get("interleaved")) else 1)] = E[off]
        off += s
    if not hermitian and cplx:
        E = E + 1j * rng.integers(-2, 3, size=N) * 0.5
        # keep explicit degenerate partners degenerate
        off = 0
        for s in sizes:
            if s >= 2 and spec["degenerate"]:
                E[off + (2 if (s >= 3 and spec.get("interleaved")) else 1)] = E[off]
            off += s
    if spec.get("mirror_pairs"):
        off = 0
        for s in sizes:
            if s >= 2 and E[off] != 0:
                cand = np.conj(E[off]) if (not hermitian and cplx and E[off].imag != 0 and rng.random() < 0.5) else -E[off]
                if not np.any(np.isclose(E, cand)):
                    E[off + 1] = cand
            off += s
    if spec.get("real_pairs") and not hermitian and not cplx:
        # states (2m, 2m+1) for m < npairs carry lambda, conj(lambda); the explicit blocks take the states
        # 0, 2, 4, ... first, so that partners of explicit levels lie in the implicit subspace
        npairs = max(1, min(k, (N - k)))
        order = [2 * m for m in range(npairs)] + [q for q in range(N) if q >= 2 * npairs] + [2 * m + 1 for m in range(npairs)]
        order = order[:N]
        Ep = np.zeros(N, complex)
        W = np.zeros((N, N), complex)
        vals = rng.choice(np.arange(1, 4 * N), size=N, replace=False) * 0.5
        for m in range(npairs):
            a_, b_ = vals[2 * m], 0.5 * (1 + m)
            Ep[2 * m], Ep[2 * m + 1] = a_ + 1j * b_, a_ - 1j * b_
            W[2 * m, 2 * m], W[2 * m + 1, 2 * m] = 1 / np.sqrt(2), 1j / np.sqrt(2)
            W[2 * m, 2 * m + 1], W[2 * m + 1, 2 * m + 1] = 1 / np.sqrt(2), -1j / np.sqrt(2)
        for q in range(2 * npairs, N):
            Ep[q] = vals[q]
            W[q, q] = 1.0
        Sm = np.linalg.qr(rng.normal(size=(N, N)))[0] @ (np.eye(N) + 0.3 * np.triu(rng.normal(size=(N, N)), 1))
        Rfull = Sm @ W
        Lfull = np.linalg.inv(Rfull).conj().T
        H0c = Rfull @ np.diag(Ep) @ Lfull.conj().T
        assert np.abs(H0c.imag).max() < 1e-9
        R, L, E = Rfull[:, order], Lfull[:, order], Ep[order]
        H0 = H0c.real
        terms = [rng.normal(size=(N, N)) for _ in range(spec["n_par"])]
        if spec.get("mixed_terms") and len(terms) >= 2:
            terms[-1] = terms[-1] + 1j * rng.normal(size=(N, N))
        offs = np.concatenate([[0], np.cumsum(sizes)])
        expl = [(np.array(R[:, offs[i]:offs[i + 1]]), np.array(L[:, offs[i]:offs[i + 1]])) for i in range(len(sizes))]
        full = expl + [(np.array(R[:, k:]), np.array(L[:, k:]))]
        return dict(spec=spec, N=N, k=k, sizes=sizes, E=E, R=R, L=L, H0=H0, terms=terms, expl=expl, full=full, hermitian=False)
    if hermitian:
        Q = structured_basis(rng, N, cplx, True) if spec.get("structured") else np.linalg.qr(rnd((N, N)))[0]
        R, L = Q, Q
        H0 = Q @ np.diag(E.real) @ Q.conj().T
        H0 = (H0 + H0.conj().T) / 2
        terms = []
        for _ in range(spec["n_par"]):
            A = rnd((N, N))
            terms.append((A + A.conj().T) / 2)
    else:
        if spec.get("normal"):
            R = structured_basis(rng, N, cplx, True) if spec.get("structured") else np.linalg.qr(rnd((N, N)))[0]
        elif spec.get("structured"):
            R = structured_basis(rng, N, cplx, False)
        else:
            Q = np.linalg.qr(rnd((N, N)))[0]
            T = np.triu(rnd((N, N)), 1) * 0.3
            R = Q @ (np.eye(N) + T)
        L = np.linalg.inv(R).conj().T
        H0 = R @ np.diag(E) @ L.conj().T
        terms = [rnd((N, N)) for _ in range(spec["n_par"])]
    if not cplx:
        H0, R, L = H0.real, R.real, L.real
        terms = [t.real for t in terms]
    if spec.get("mixed_terms") and not cplx and len(terms) >= 2:
        A = rng.normal(size=(N, N)) + 1j * rng.normal(size=(N, N))
        terms[-1] = (A + A.conj().T) / 2 if hermitian else A
    offs = np.concatenate([[0], np.cumsum(sizes)])
    if hermitian:
        expl = [np.array(R[:, offs[i]:offs[i + 1]]) for i in range(len(sizes))]
        full = expl + [np.array(R[:, k:])]
    else:
        expl = [(np.array(R[:, offs[i]:offs[i + 1]]), np.array(L[:, offs[i]:offs[i + 1]])) for i in range(len(sizes))]
        rest = (np.array(R[:, k:]), np.array(L[:, k:]))
        if spec.get("normal"):
            # L = R here: some (or all) subspaces as plain arrays
            plain = [bool(rng.random() < 0.7) for _ in range(len(sizes) + 1)]
            expl = [e[0] if pl else e for e, pl in zip(expl, plain)]
            rest = rest[0] if plain[-1] else rest
        full = expl + [rest]
    return dict(spec=spec, N=N, k=k, sizes=sizes, E=E, R=R, L=L, H0=H0, terms=terms, expl=expl, full=full, hermitian=hermitian)


def hamiltonians(c, sparse_input=True):
    """(implicit-mode input, explicit-mode input) as lists/dicts of first-order terms"""
    H = [c["H0"]] + list(c["terms"])
    if sparse_input:
        return [sparse.csr_array(h) for h in H], [np.array(h) for h in H]
    return [np.array(h) for h in H], [np.array(h) for h in H]
