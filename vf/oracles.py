"""Oracles over the full-matrix dicts extracted from block_diagonalize (C01-C05, C13...)."""
from __future__ import annotations

import numpy as np

from vf.matprob import Problem, terms, zero_like
from vf.models.cauchy import cprod
from vf.util import GR, Violation, adj, max_abs, splits

RTOL = 1e-9


def _absd(D):
    return {n: np.abs(M.astype(complex)) if M.dtype != object else np.vectorize(abs, otypes=[float])(M) for n, M in D.items()}


def _diff_ok(A, B, exact, scale):
    """A == B (exact) or |A-B| <= RTOL*max(1,scale).  Returns (ok, err)."""
    if exact:
        D = A - B
        bad = [idx for idx in np.ndindex(*D.shape) if D[idx] != 0]
        return (not bad), (bad[0] if bad else None)
    err = float(np.max(np.abs(A - B), initial=0.0))
    if not np.isfinite(err):
        return False, err
    return err <= RTOL * max(1.0, scale), err


def finite_check(p: Problem, Ht, U, G):
    if p.exact:
        return
    for name, D in (("H_tilde", Ht), ("U", U), ("U_adj/U_inv", G)):
        for n, M in D.items():
            if not np.all(np.isfinite(M)):
                raise Violation(f"{name} has a non-finite element at order {n}")


def mask_where(M, mask, exact):
    out = M.copy()
    if exact:
        for idx in np.ndindex(*M.shape):
            if not mask[idx]:
                out[idx] = GR(0)
        return out
    return np.where(mask, M, 0)


# ---- C01 / C05: similarity transform -------------------------------------------------------
def check_transform(p: Problem, Ht, U, G, what="U^dagger H U"):
    """(G H U)_n equals Ht_n on kept elements and zero on eliminated ones, from U, G and the
    harness's own copy of H (Ht's eliminated part is not consulted)."""
    H = terms(p)
    Z = zero_like(p)
    n_checked = 0
    if not p.exact:
        aH, aU, aG = _absd(H), _absd(U), _absd(G)
    for n in p.orders:
        T = cprod([G, H, U], n, Z)
        scale = 0.0 if p.exact else float(np.max(cprod([aG, aH, aU], n, np.zeros((p.N, p.N))), initial=0.0))
        kept_T = mask_where(T, p.keep, p.exact)
        kept_Ht = mask_where(Ht[n], p.keep, p.exact)
        ok, err = _diff_ok(kept_T, kept_Ht, p.exact, scale)
        if not ok:
            raise Violation(f"({what})_{n} differs from H_tilde_{n} on a kept element (err={err}, scale={scale:.3g})")
        elim = mask_where(T, ~p.keep, p.exact)
        ok, err = _diff_ok(elim, Z, p.exact, scale)
        if not ok:
            raise Violation(f"({what})_{n} is non-zero on an element selected for elimination (err={err}, scale={scale:.3g})")
        n_checked += 1
    return n_checked


# ---- C02 / C05: unitarity / inverse ------------------------------------------------------------
def check_inverse(p: Problem, U, G, what="U^dagger"):
    Z = zero_like(p)
    z = (0,) * p.n_par
    I = Z.copy()
    for i in range(p.N):
        I[i, i] = GR(1) if p.exact else 1.0
    if not p.exact:
        aU, aG = _absd(U), _absd(G)
    for n in p.orders:
        target = I if n == z else Z
        for name, fac, afac in ((f"{what} U", [G, U], None), (f"U {what}", [U, G], None)):
            T = cprod(fac, n, Z)
            scale = 0.0 if p.exact else float(np.max(cprod([aG, aU], n, np.zeros((p.N, p.N))), initial=0.0))
            ok, err = _diff_ok(T, target, p.exact, scale)
            if not ok:
                raise Violation(f"({name})_{n} != {'1' if n == z else '0'} (err={err})")


def check_adjoint_pairing(p: Problem, Ht, U, G):
    for n in p.orders:
        scale = max_abs(U[n])
        ok, err = _diff_ok(G[n], adj(U[n]), p.exact, scale * 1e-3)  # 1e-12 relative
        if not ok:
            raise Violation(f"third output at order {n} is not the conjugate transpose of U (err={err})")
        ok, err = _diff_ok(Ht[n], adj(Ht[n]), p.exact, max_abs(Ht[n]) * 1e-3)
        if not ok:
            raise Violation(f"H_tilde at order {n} is not Hermitian (err={err})")


# ---- C03 / C05: gauge + reference solver --------------------------------------------------------------
def check_gauge(p: Problem, U, G):
    z = (0,) * p.n_par
    Z = zero_like(p)
    for n in p.orders:
        if n == z:
            continue
        D = mask_where(U[n] - G[n], p.keep, p.exact)
        ok, err = _diff_ok(D, Z, p.exact, max(max_abs(U[n]), 1.0))
        if not ok:
            raise Violation(f"(U - U_inv)_{n} has a kept matrix element (err={err}): not the least-action gauge")


def magnitude(D):
    return max([1.0] + [max_abs(M) for M in D.values()])


def noise_floor(p: Problem, n, even_if_exact: bool = False) -> float:
    """Rounding noise of the *input* (e.g. 1e-16 off-diagonal entries left by rotating the Hamiltonian into a supplied
    eigenbasis) is amplified by (|H'| / gap) at every order, whatever the exact values are - also when the exact
    result vanishes by a symmetry that rounding breaks.  1000 eps x that natural size bounds it."""
    if p.exact and not even_if_exact:
        return 0.0
    z = (0,) * p.n_par
    E = np.diag(np.asarray(p.terms_f[z], complex))
    gaps = np.abs(E[:, None] - E[None, :])[~np.asarray(p.keep)]
    gap = float(gaps.min()) if gaps.size else 1.0
    size = sum(float(np.abs(M).sum(axis=1).max()) for o, M in p.terms_f.items() if o != z)
    kappa = max(1.0, size / max(gap, 1e-300))
    return 1e-13 * kappa ** int(sum(n))


def compare_with(p: Problem, got, ref, names=("H_tilde", "U", "U_inv"), label="reference solver", rtol=RTOL):
    """Returns None if all agree else a description string."""
    for name, A, B in zip(names, got, ref):
        for n in p.orders:
            if p.exact:
                ok, err = _diff_ok(A[n], B[n], True, 0)
            else:
                # errors of both computations are proportional to the size of intermediate terms
                scale = max(magnitude(B), magnitude(A)) * max(1.0, max_abs(B[n]))
                err = float(np.max(np.abs(A[n] - B[n]), initial=0.0))
                ok = np.isfinite(err) and err <= rtol * scale + noise_floor(p, n)
            if not ok:
                return f"{name}_{n} differs from the {label} (err={err})"
    return None


# ---- C04: spectrum ---------------------------------------------------------------------------------------
def series_mul(A, B, orders, Z):
    return {n: cprod([A, B], n, Z) for n in orders}


def check_spectrum(p: Problem, Ht):
    H = terms(p)
    Z = zero_like(p)
    PA, PB = dict(Ht), {n: H.get(n, Z) for n in p.orders}
    A1, B1 = dict(PA), dict(PB)
    if not p.exact:
        aA, aB = _absd(PA), _absd(PB)
        # every entry of a float term carries rounding noise of a few eps x its size (e.g. 1e-15 entries left by the
        # rotation into supplied eigenvectors where the exact entry vanishes); high powers of H_0 multiply it although
        # the exact entry - and with it the plain |.|-series - vanishes there: give every entry a floor of 3e-6 x max
        # (x RTOL = 3e-15 relative)
        for D_ in (aA, aB):
            for n_ in D_:
                D_[n_] = D_[n_] + 3e-6 * float(np.max(D_[n_], initial=0.0))
        sA, sB = dict(aA), dict(aB)
    n_checked = 0
    for k in range(1, p.N + 1):
        if k > 1:
            PA = series_mul(PA, A1, p.orders, Z)
            PB = series_mul(PB, B1, p.orders, Z)
            if not p.exact:
                sA = series_mul(sA, aA, p.orders, np.zeros((p.N, p.N)))
                sB = series_mul(sB, aB, p.orders, np.zeros((p.N, p.N)))
        for n in p.orders:
            ta = sum((PA[n][i, i] for i in range(p.N)), GR(0) if p.exact else 0.0)
            tb = sum((PB[n][i, i] for i in range(p.N)), GR(0) if p.exact else 0.0)
            n_checked += 1
            if p.exact:
                if ta != tb:
                    raise Violation(f"[tr H_tilde^{k}]_{n} = {ta} != [tr H^{k}]_{n} = {tb}: spectrum differs at order {n}")
            else:
                scale = max(1.0, float(np.trace(sA[n])), float(np.trace(sB[n])))
                if not abs(ta - tb) <= RTOL * scale:
                    raise Violation(f"[tr H_tilde^{k}]_{n} differs from [tr H^{k}]_{n} by {abs(ta - tb):.3e} (scale {scale:.3g})")
    return n_checked


def check_rayleigh_schroedinger(p: Problem, Ht):
    """Closed textbook formulas (orders 1 and 2 in each single parameter) for every state of a
    fully diagonalised block whose level is non-degenerate."""
    H = terms(p)
    z = (0,) * p.n_par
    off = p.offsets()
    checked = 0
    E = p.E
    for b in p.fd:
        for i in range(off[b], off[b + 1]):
            tol_ = p.notes.get("atol_boundary", 0.0) if not p.exact else 0.0
            if any(E[j] == E[i] or (tol_ and abs(E[j] - E[i]) <= tol_) for j in range(p.N) if j != i):
                continue
            for kpar in range(p.n_par):
                e1 = tuple(1 if q == kpar else 0 for q in range(p.n_par))
                e2 = tuple(2 if q == kpar else 0 for q in range(p.n_par))
                if e1 in Ht:
                    want = H[e1][i, i] if e1 in H else (GR(0) if p.exact else 0.0)
                    got = Ht[e1][i, i]
                    if (got != want) if p.exact else abs(got - want) > RTOL * max(1.0, abs(want)):
                        raise Violation(f"first-order Rayleigh-Schroedinger energy of state {i}: {got} != {want}")
                    checked += 1
                if e2 in Ht and e1 in H:
                    want = H[e2][i, i] if e2 in H else (GR(0) if p.exact else 0.0)
                    mag = 1.0
                    for j in range(p.N):
                        if j == i:
                            continue
                        hij = H[e1][i, j]
                        hji = H[e1][j, i]
                        t = hij * hji / (E[i] - E[j])
                        want = want + t
                        mag += abs(t)
                    got = Ht[e2][i, i]
                    if (got != want) if p.exact else abs(got - want) > RTOL * mag:
                        raise Violation(f"second-order Rayleigh-Schroedinger energy of state {i}: {got} != {want}")
                    checked += 1
    return checked


def perturbation_couples_eliminated(p: Problem) -> bool:
    z = (0,) * p.n_par
    for n, M in p.terms_f.items():
        if n != z and np.any(np.abs(M[~p.keep]) > 0):
            return True
    return False
