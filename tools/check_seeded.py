#!/venv/bin/python
"""Regression run over all seeded changes: every change is applied to a scratch copy of the CURRENT /repo tree and the
check(s) recorded in its meta.json as catching it are run (fail-fast); prints one line per change and a summary.
usage: check_seeded.py [pattern]   (e.g. 'C0*-f')"""
import fnmatch, glob, json, os, re, shutil, subprocess, sys, tempfile

def main():
    pat = sys.argv[1] if len(sys.argv) > 1 else "*"
    bad = []
    for d in sorted(glob.glob("/verif/seeded/*/")):
        name = os.path.basename(d.rstrip("/"))
        if not fnmatch.fnmatch(name, pat):
            continue
        meta = json.load(open(os.path.join(d, "meta.json")))
        checks = []
        for k, v in meta.get("checks", {}).items():
            if str(v).startswith("caught"):
                checks += re.findall(r"C\d\d", k.split("(")[0])
        checks = list(dict.fromkeys(checks))[:2]
        if not checks:
            print(f"{name}: no catching check recorded ({list(meta.get('checks', {}))[:2]})"); continue
        t = tempfile.mkdtemp(prefix="pymab-seeded-")
        try:
            shutil.copytree("/repo/pymablock", os.path.join(t, "pymablock"), ignore=shutil.ignore_patterns("__pycache__"))
            r = subprocess.run(["patch", "-p1", "-s", "-i", os.path.join(d, "patch.diff")], cwd=t, capture_output=True, text=True)
            if r.returncode != 0:
                print(f"{name}: PATCH DOES NOT APPLY"); bad.append(name); continue
            res = []
            for c in checks:
                env = dict(os.environ, VERIF_REPO=t, VERIF_EVIDENCE_DIR=os.path.join(t, "ev"), VERIF_REPLAY_DIR=os.path.join(t, "rp"), VERIF_FAILFAST="1")
                rr = subprocess.run(["/verif/check", c, "quick"], env=env, capture_output=True, text=True)
                res.append((c, rr.returncode))
            ok = any(rc == 1 for _, rc in res)
            print(f"{name}: {'caught' if ok else 'NOT CAUGHT'} {res}", flush=True)
            if not ok:
                bad.append(name)
        finally:
            shutil.rmtree(t, ignore_errors=True)
    print("NOT CAUGHT / broken:", bad)
    return 1 if bad else 0

if __name__ == "__main__":
    sys.exit(main())
