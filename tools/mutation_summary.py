#!/venv/bin/python
"""Summarise /verif/mutation/results.jsonl and refresh the block between the MUTATION markers in DESIGN.md."""
import collections, json, os, re
rs = {}
for l in open("/verif/mutation/results.jsonl"):
    try:
        r = json.loads(l)
        rs[r["id"]] = r
    except Exception:
        pass
rs = list(rs.values())
triage = json.load(open("/verif/mutation/triage.json")) if os.path.exists("/verif/mutation/triage.json") else {}
st = collections.Counter(r["status"] for r in rs)
by = collections.Counter(r.get("caught_by") for r in rs if r["status"] == "caught")
lines = []
lines.append(f"Mutants run: {len(rs)}; invalid: {st.get('invalid', 0)}; killed by the repository's own tests: {st.get('killed_by_tests', 0)}; "
             f"passing the tests: {st.get('caught', 0) + st.get('survived', 0)}, of which caught by a check: {st.get('caught', 0)} "
             f"({', '.join(f'{k}: {v}' for k, v in sorted(by.items()))}), not caught: {st.get('survived', 0)}.")
lines.append("")
lines.append("| mutant | location | change | result | triage |")
lines.append("|---|---|---|---|---|")
for r in sorted(rs, key=lambda r: (r["file"], r["line"])):
    if r["status"] not in ("caught", "survived"):
        continue
    old = r["old"][:50].replace("\n", " ").replace("|", "\\|")
    new = r["new"][:50].replace("\n", " ").replace("|", "\\|")
    res = f"caught by {r['caught_by']}" if r["status"] == "caught" else "not caught"
    lines.append(f"| {r['id']} | {r['file']}:{r['line']} | {r['what']}: `{old}` → `{new}` | {res} | {triage.get(r['id'], '') if r['status'] == 'survived' else ''} |")
block = "\n".join(lines)
p = "/verif/DESIGN.md"
s = open(p).read()
a, b = "<!-- MUTATION-START -->", "<!-- MUTATION-END -->"
if a in s:
    s = s[: s.index(a) + len(a)] + "\n" + block + "\n" + s[s.index(b):]
    open(p, "w").write(s)
print(block[:3000])
untri = [r["id"] for r in rs if r["status"] == "survived" and r["id"] not in triage]
print("untriaged survivors:", untri)
