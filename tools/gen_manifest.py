#!/venv/bin/python
"""Regenerate /verif/MANIFEST.json from the table below + the check modules that exist.
A property without a check module is listed under not_applicable ("not built yet")."""
import json
import os
import subprocess

HERE = os.path.dirname(os.path.dirname(os.path.abspath(__file__)))

CHECKS = {
    "C01": dict(
        cat="exploration",
        technique="runtime monitoring: dense Cauchy-product oracle (U†HU recomputed from returned U and the harness's H) over seeded random problems, with in-situ solver/product/FP monitors",
        text="Every run executes the real block_diagonalize on a generated well-posed problem and recomputes U†HU densely from the returned elements; exact arithmetic for rational inputs. Assurance = held on the K executions listed in the evidence (all value types, selection kinds, designations); universally quantified property, so exploration is the honest level.",
        note="Trusted: numpy/sympy arithmetic, the harness's own construction of H, energies and keep-sets; bounds N<=14, <=4 blocks, <=3 parameters, order<=5.",
        ref="DESIGN §2 C01",
    ),
    "C02": dict(
        cat="exploration",
        technique="runtime monitoring: dense Cauchy-product oracle for U†U, UU†, adjoint pairing and Hermiticity of H_tilde on every execution",
        text="Same executions as C01 (independent seeds); the oracle is a direct dense evaluation of the defining identities on the returned elements at every order and block pair.",
        note="Trusted: numpy/sympy arithmetic. Adjoint pairing compared to 1e-12 relative for floats.",
        ref="DESIGN §2 C02",
    ),
    "C03": dict(
        cat="exploration",
        technique="runtime monitoring: reference-model monitor (independent dense order-by-order solver R1, exact Gaussian-rational back end) + gauge assertion on returned elements",
        text="Every execution is compared element by element with an independent solver of the defining equations that multiplies by H_0 explicitly; equality is exact for exact inputs. Catches gauge changes that keep unitarity and elimination intact.",
        note="Trusted: the reference solver vf/models/refsolve.py (70 lines, no code shared with pymablock).",
        ref="DESIGN §2 C03",
    ),
    "C04": dict(
        cat="exploration",
        technique="runtime monitoring: power-sum (characteristic polynomial) oracle that never looks at U, plus Rayleigh-Schroedinger closed formulas",
        text="For every execution and every truncation order the power sums tr H_tilde^k and tr H^k are compared as truncated multivariate series (k=1..dim), which is equivalent to equality of the characteristic polynomials to that order.",
        note="Trusted: numpy/sympy arithmetic; Newton's identities.",
        ref="DESIGN §2 C04",
    ),
    "C05": dict(
        cat="exploration",
        technique="runtime monitoring: dense inverse/similarity/gauge oracles + reference solver R1 (non-Hermitian variant) + differential run against Hermitian mode; known finding F4 classified by predicate and identification against the documented recurrence R2",
        text="Every execution with hermitian=False is checked against the defining identities and the independent solver in four structural classes; the known defect F4 is reported as KNOWN-FINDING only when the failing case satisfies the predicate and the outputs equal the documented recurrence.",
        note="Trusted: reference solver R1 and transcription R2; known_findings.json.",
        ref="DESIGN §2 C05, §3 F4",
    ),
    "C06": dict(
        cat="exploration",
        technique="runtime monitoring: differential execution implicit vs complete-eigenbasis, dense action of returned LinearOperators, in-situ direct-solver/Green's-function residual monitors",
        text="Each generated numeric problem is run twice through the real library (implicit and explicit) and compared on all explicit blocks and on the dense action of the implicit blocks; KPM within a tolerance tied to the requested accuracy.",
        note="Trusted: numpy.linalg.eigh/eig used by the harness to complete the eigenbasis.",
        ref="DESIGN §2 C06",
    ),
    "C07": dict(
        cat="exploration",
        technique="runtime monitoring: reference-model monitor (Fock/Jordan-Wigner/shift-lattice matrix model R4 + dense solver R1 on truncated matrices, double cut-off rule)",
        text="Operator-valued outputs are denoted as matrices on a truncated Fock space and compared with the matrix block diagonalisation of the denoted input on low-lying states; operator identities U†U=1, U†HU=H_tilde checked through the same denotation. The known defect F23 (a level resonant with the continuation of a level at a non-existent occupation) is reported as KNOWN-FINDING only when the case has such a state and every mismatching element lies on a perturbation chain through it; its smallest failing input is the first case of every run.",
        note="Trusted: the matrix model vf/models/fock.py; truncation artefacts excluded by agreement of two cut-offs; known_findings.json.",
        ref="DESIGN §2 C07",
    ),
    "C08": dict(
        cat="exploration",
        technique="runtime monitoring: reference-model monitor (two independent matrix denotations of operator expressions and of NumberOrderedForm terms) over generated operator words",
        text="Every arithmetic operation of NumberOrderedForm on generated words is compared with matrix arithmetic in an independent representation away from truncation edges.",
        note="Trusted: vf/models/fock.py; coefficients are generated regular at all integers.",
        ref="DESIGN §2 C08",
    ),
    "C09": dict(
        cat="translation_validation",
        technique="runtime monitoring: translation validation of generated mini-language programs against an independent direct interpreter (R5), plus in-library differentials (deletion on/off, flags, linear-operator mode)",
        text="Each generated or shipped program is compiled by the real series_computation and every element of every series is compared with the value given by a direct AST interpreter that shares no code with algorithm_parsing.",
        note="Trusted: the interpreter vf/models/dsl.py and the generator's well-foundedness construction.",
        ref="DESIGN §2 C09",
    ),
    "C10": dict(
        cat="exploration",
        technique="runtime monitoring: history monitor (bitwise comparison with fresh single-request computations), byte snapshots of inputs and handed-out values, read-only poisoning of buffers",
        text="Request histories (exhaustive ordered pairs on small problems, random long histories, interleaved computations sharing inputs) are executed and every returned value compared bit for bit with a fresh computation; inputs and earlier results are re-hashed after every request.",
        note="Trusted: numpy byte representation; determinism of the library for a fixed request (verified: ulp_diff counter).",
        ref="DESIGN §2 C10",
    ),
    "C11": dict(
        cat="fault_enumeration",
        technique="runtime monitoring with fault injection: exhaustive enumeration of every user-callback invocation index x exception type, quiescence (PENDING) invariant hook, bitwise recovery comparison",
        text="For each small problem and request target every callback invocation is made to raise once (Exception, RuntimeError, KeyboardInterrupt); propagation, absence of in-flight markers and bitwise-identical recovery of all elements are asserted.",
        note="Trusted: the clean run of the same problem as reference.",
        ref="DESIGN §2 C11",
    ),
    "C12": dict(
        cat="exploration",
        technique="runtime monitoring: offline checker over the recorded evaluation log of a lazily defined Hamiltonian (causality cone, at-most-once, define-time laziness) with poisoned out-of-cone terms",
        text="The Hamiltonian is a user BlockSeries whose eval logs every call and raises for terms outside the causal cone of the request, so that 'evaluated but discarded' becomes observable; plus metamorphic re-runs with altered outside terms.",
        note="Trusted: the log is recorded at the user boundary (the eval callback).",
        ref="DESIGN §2 C12",
    ),
    "C13": dict(
        cat="exploration",
        technique="runtime monitoring: metamorphic relations between pairs of real executions (scaling, merging, permuting, padding, substituting perturbation parameters)",
        text="Each relation is checked between two executions of the real library; power-of-two scalings are compared bitwise.",
        note="Trusted: numpy arithmetic for the dense sums in the merge relation.",
        ref="DESIGN §2 C13",
    ),
    "C14": dict(
        cat="exploration",
        technique="runtime monitoring: differential execution of one problem under all admissible encodings (containers x value types x designations x eigenbases); own Taylor expansion as oracle for analytic sympy input",
        text="One generated problem is encoded in every supported way and all executions must agree with the canonical one and with the dense projection L†AR.",
        note="Trusted: sympy differentiation for the harness's own Taylor coefficients.",
        ref="DESIGN §2 C14",
    ),
    "C15": dict(
        cat="exploration",
        technique="runtime monitoring: metamorphic covariance relations between pairs of executions (block relabelling, state permutation, degenerate rotation, conjugation, shift, scale, direct sum)",
        text="Each transformation is applied to the input and the outputs of the two real executions must be related by the corresponding transformation.",
        note="Trusted: transformations keep the problem in the same well-posed class (checked by construction).",
        ref="DESIGN §2 C15",
    ),
    "C16": dict(
        cat="exploration",
        technique="runtime monitoring: residual contracts on the real solver closures (direct hostile calls + in-situ inside block_diagonalize workloads), Fock-model residual for the second-quantised solver",
        text="Every call of a built-in solver made by the workloads is followed by a dense residual check of its defining equation on the subspace where it is defined; per-branch call counters make an unreached branch inconclusive.",
        note="Trusted: dense linear algebra of the residuals; size bound for densification.",
        ref="DESIGN §2 C16",
    ),
    "C17": dict(
        cat="exploration",
        technique="runtime monitoring: random operator-expression trees over ComplementProjector evaluated twice (LinearOperator algebra vs dense matrices)",
        text="Random compositions of the projector with sparse/dense operators, transposes, adjoints and conjugates are applied to vectors and matrices from both sides and compared with the dense expression.",
        note="Trusted: scipy.sparse.linalg.LinearOperator composition rules for the non-projector nodes.",
        ref="DESIGN §2 C17",
    ),
    "C18": dict(
        cat="exploration",
        technique="runtime monitoring: dense Cauchy-sum oracle + evaluation-log checker of factor requests (orders <= requested, partner present), in-situ product_by_order contract",
        text="Products of 2-4 random block series with zero/one sentinels are compared with explicit sums; the factors' eval logs are checked against the termination rule.",
        note="Trusted: vf/models/cauchy.py.",
        ref="DESIGN §2 C18",
    ),
    "C19": dict(
        cat="exploration",
        technique="runtime monitoring: numpy itself as reference model on an object array of unique tokens, evaluation counter per element, bounded-progress check for self-reference",
        text="Random and (thorough) exhaustive index expressions are applied to both the BlockSeries and the dense token array; evaluation counts and error classes are asserted.",
        note="Trusted: numpy indexing semantics.",
        ref="DESIGN §2 C19",
    ),
    "C20": dict(
        cat="exploration",
        technique="runtime monitoring: expected-exception oracle over generated ill-posed inputs embedded in valid problems, with negative controls, plus finiteness/FP-warning monitors on well-posed inputs",
        text="Each ill-posed class is embedded at a random place of an otherwise valid problem and the first needing request must raise ValueError/TypeError/NotImplementedError; the unmodified twin must be accepted and finite.",
        note="Trusted: the class -> 'needing element' map of the harness.",
        ref="DESIGN §2 C20",
    ),
}


def main():
    checks = []
    na = []
    for pid in sorted(CHECKS):
        c = CHECKS[pid]
        if not os.path.exists(os.path.join(HERE, "vf", "checks", f"{pid.lower()}.py")):
            na.append({"property_id": pid, "reason": "check not built yet in this session (planned, see DESIGN.md §2); no claim is made"})
            continue
        checks.append(
            {
                "property_id": pid,
                "quick_cmd": f"./check {pid} quick",
                "thorough_cmd": f"./check {pid} thorough",
                "evidence_file": f"/verif/evidence/{pid}.json",
                "replay_cmd_template": f"./check {pid} quick --replay {{path}}",
                "engine": "vf",
                "level_claimed": {"category": c["cat"], "text": c["text"], "design_ref": c["ref"]},
                "level_note": c["note"],
                "technique": c["technique"],
            }
        )
    hooks_commits = []
    man = {
        "version": 1,
        "setup_cmd": "./setup.sh",
        "hooks": {
            "guard": "PYMABLOCK_VERIF",
            "enable": "no in-tree hooks: all monitors are installed by runtime patching from /verif/vf/monitors.py; ./check exports PYMABLOCK_VERIF=1 and PYTHONPATH=/repo so the working tree is what is imported",
            "baseline_off_cmd": "/verif/tools/baseline_off.py",
            "source_commits": hooks_commits,
            "add_only": True,
        },
        "engines": [
            {
                "name": "vf",
                "path": "/verif/vf",
                "serves_properties": [c["property_id"] for c in checks],
                "kind_free_text": "Python runtime-monitoring harness: sharded seeded workloads on the real library, in-situ monitors (runtime patches + icontract post-conditions), independent reference models, three-valued verdicts",
            }
        ],
        "checks": checks,
        "notes": "exit 0 held / 1 VIOLATION / 2 INCONCLUSIVE. Known findings: /verif/known_findings.json. VERIF_SEED selects the seed; VERIF_REPO (default /repo) the tree under test.",
        "not_applicable": na,
    }
    with open(os.path.join(HERE, "MANIFEST.json"), "w") as f:
        json.dump(man, f, indent=1, ensure_ascii=False)
    print(f"{len(checks)} checks, {len(na)} not yet claimed")


if __name__ == "__main__":
    main()
