#!/venv/bin/python
"""Run checks against a seeded change kept in /verif/seeded/<name>/patch.diff (or any dir).
usage: run_seeded.py <dir-with-patch.diff> [--tests] [--demo] <check> ...   (env TIER=quick|thorough)
The patch is applied to a scratch copy of /repo's working tree (outside /repo and /verif),
which is removed afterwards."""
import os, shutil, subprocess, sys, tempfile

def main():
    args = sys.argv[1:]
    d0 = args.pop(0)
    run_tests = "--tests" in args
    run_demo = "--demo" in args
    checks = [a for a in args if not a.startswith("--")]
    tier = os.environ.get("TIER", "quick")
    d = tempfile.mkdtemp(prefix="pymab-seeded-")
    try:
        shutil.copytree("/repo/pymablock", os.path.join(d, "pymablock"), ignore=shutil.ignore_patterns("__pycache__"))
        for f in ("pytest.ini", "pyproject.toml"):
            shutil.copy(os.path.join("/repo", f), d)
        r = subprocess.run(["patch", "-p1", "-i", os.path.abspath(os.path.join(d0, "patch.diff"))], cwd=d, capture_output=True, text=True)
        if r.returncode != 0:
            print("patch failed:", r.stdout, r.stderr); return 2
        if run_demo:
            for label, cwd in (("patched", d), ("unchanged", "/repo")):
                r = subprocess.run(["/venv/bin/python", os.path.abspath(os.path.join(d0, "demo.py"))], cwd=cwd, capture_output=True, text=True, timeout=600,
                                   env=dict(os.environ, PYTHONPATH=cwd))
                print(f"demo on {label}: exit {r.returncode}; {(r.stdout + r.stderr).strip().splitlines()[-1:]}")
        if run_tests:
            r = subprocess.run(["/venv/bin/python", "-m", "pytest", "-q", "-p", "no:cacheprovider", "-n", "8", "--timeout=900", "--no-cov", "-o", "addopts=", "pymablock"],
                               cwd=d, capture_output=True, text=True)
            print("repo tests on patched copy:", r.stdout.strip().splitlines()[-1])
        for c in checks:
            env = dict(os.environ, VERIF_REPO=d, VERIF_EVIDENCE_DIR=os.path.join(d, "ev"), VERIF_REPLAY_DIR=os.path.join(d, "rp"))
            r = subprocess.run(["/verif/check", c, tier], env=env, capture_output=True, text=True)
            lines = [l for l in r.stdout.splitlines() if l.startswith(("[", "INCONCLUSIVE", "KNOWN", "  violation"))]
            nv = sum(1 for l in r.stdout.splitlines() if l.startswith("VIOLATION"))
            print(f"== {c} {tier}: exit {r.returncode} ({nv} VIOLATION lines)")
            for l in lines[:4]:
                print("   ", l[:260])
    finally:
        shutil.rmtree(d, ignore_errors=True)

if __name__ == "__main__":
    sys.exit(main())
