#!/opt/veriftools/pyvenv/bin/python
"""Validate MANIFEST.json and every evidence file against the schemas."""
import json, glob, sys, jsonschema
ok = True
man = json.load(open("/verif/MANIFEST.json"))
jsonschema.validate(man, json.load(open("/root/.vp/MANIFEST.schema.json")))
es = json.load(open("/root/.vp/EVIDENCE.schema.json"))
claimed = {c["property_id"] for c in man["checks"]}
for pid in sorted(claimed):
    try:
        ev = json.load(open(f"/verif/evidence/{pid}.json"))
        jsonschema.validate(ev, es)
        print(pid, "ok", ev["tier"], ev["coverage"]["evaluations"], ev["coverage"]["distinct_nontrivial"], ev["wall_s"])
    except Exception as e:
        ok = False; print(pid, "INVALID", str(e)[:300])
props = [json.loads(l)["id"] for l in open("/verif/properties.jsonl")]
na = {x["property_id"] for x in man.get("not_applicable", [])}
missing = [p for p in props if p not in claimed and p not in na]
print("unlisted:", missing)
sys.exit(0 if ok and not missing else 1)
