#!/venv/bin/python
"""Automated mutation campaign (build-time validation of the monitors; DESIGN section 9).

Enumerates first-order mutants of the library's source (AST-level operator swaps, constant changes,
negated conditions, dropped `.conj()`/`.adjoint()`/transposes, removed `not`/unary minus, swapped
`and`/`or`), samples them reproducibly and, for every sampled mutant:

  1. copies /repo/pymablock to a scratch tree outside /repo and /verif and applies the mutant;
  2. runs the repository's own test-suite on it; a mutant that fails a test which passes on the
     unchanged tree is *killed by the tests* and of no interest;
  3. otherwise runs the checks mapped to the mutated file (VERIF_FAILFAST=1: stop at the first
     violation), most specific first; a mutant is *caught* by the first check that exits 1.

Survivors are listed with their diff for manual triage (equivalent mutant or coverage gap).
Results: /verif/mutation/results.jsonl (append-only, one line per mutant; resumable).

usage: mutcampaign.py [--files a.py,b.py] [--n 40] [--seed 0] [--list] [--only ID] [--jobs 2]
"""
from __future__ import annotations

import argparse
import ast
import hashlib
import json
import os
import random
import shutil
import subprocess
import sys
import tempfile
import time
import xml.etree.ElementTree as ET
from concurrent.futures import ThreadPoolExecutor

REPO = "/repo"
OUT = "/verif/mutation"
FILES = ["series.py", "block_diagonalization.py", "algorithms.py", "algorithm_parsing.py", "kpm.py",
         "number_ordered_form.py", "second_quantization.py", "linalg.py"]
CHECKS = {
    "series.py": ["C18", "C19", "C11", "C10", "C12", "C01", "C09", "C05"],
    "block_diagonalization.py": ["C01", "C05", "C14", "C06", "C16", "C20", "C12", "C15", "C13", "C17", "C10", "C03", "C04"],
    "algorithms.py": ["C01", "C05", "C09", "C02", "C03", "C06"],
    "algorithm_parsing.py": ["C09", "C01", "C05", "C11", "C10", "C06"],
    "kpm.py": ["C16", "C06"],
    "linalg.py": ["C17", "C16", "C06", "C10"],
    "number_ordered_form.py": ["C08", "C07", "C16"],
    "second_quantization.py": ["C07", "C16", "C08"],
}

CMP = {ast.Lt: ast.LtE, ast.LtE: ast.Lt, ast.Gt: ast.GtE, ast.GtE: ast.Gt, ast.Eq: ast.NotEq, ast.NotEq: ast.Eq,
       ast.Is: ast.IsNot, ast.IsNot: ast.Is, ast.In: ast.NotIn, ast.NotIn: ast.In}
BIN = {ast.Add: ast.Sub, ast.Sub: ast.Add, ast.Mult: ast.Add, ast.FloorDiv: ast.Mult, ast.Div: ast.Mult}
DROP_CALLS = {"conj", "conjugate", "adjoint", "transpose", "copy", "simplify", "doit", "expand"}
DROP_ATTRS = {"T", "H"}


def seg(src_lines, node):
    """(start, end) absolute offsets of a node in the source text."""
    off = [0]
    for l in src_lines:
        off.append(off[-1] + len(l))
    # col offsets are in utf-8 bytes; the library's sources are ASCII except a few docstrings/comments
    def pos(line, col):
        text = src_lines[line - 1]
        return off[line - 1] + len(text.encode()[:col].decode())
    return pos(node.lineno, node.col_offset), pos(node.end_lineno, node.end_col_offset)


def in_docstring_or_annotation(node, parents):
    return False


def enumerate_mutants(path):
    src = open(path).read()
    lines = src.splitlines(keepends=True)
    tree = ast.parse(src)
    out = []

    def add(node, new_node, what):
        try:
            s, e = seg(lines, node)
            text = "(" + ast.unparse(new_node) + ")"
            out.append(dict(start=s, end=e, new=text, what=what, line=node.lineno, old=src[s:e]))
        except Exception:  # noqa: BLE001
            pass

    skip_funcs = {"__repr__", "__str__", "_repr_latex_", "_latex", "_sympystr", "_pretty", "_print_contents_latex", "__hash__"}

    class V(ast.NodeVisitor):
        def __init__(self):
            self.stack = []

        def visit_FunctionDef(self, node):
            if node.name in skip_funcs:
                return
            self.stack.append(node.name)
            # skip decorators, annotations and the docstring
            body = node.body
            if body and isinstance(body[0], ast.Expr) and isinstance(getattr(body[0], "value", None), ast.Constant) and isinstance(body[0].value.value, str):
                body = body[1:]
            for d in node.args.defaults + [d for d in node.args.kw_defaults if d is not None]:
                self.visit(d)
            for b in body:
                self.visit(b)
            self.stack.pop()

        visit_AsyncFunctionDef = visit_FunctionDef

        def visit_AnnAssign(self, node):
            if node.value is not None:
                self.visit(node.value)

        def visit_Raise(self, node):  # messages are not behaviour
            return

        def visit_Assert(self, node):
            return

        def visit_Compare(self, node):
            if len(node.ops) == 1 and type(node.ops[0]) in CMP:
                new = ast.Compare(left=node.left, ops=[CMP[type(node.ops[0])]()], comparators=node.comparators)
                add(node, new, f"compare {type(node.ops[0]).__name__}->{CMP[type(node.ops[0])].__name__}")
            self.generic_visit(node)

        def visit_BinOp(self, node):
            if type(node.op) in BIN and not (isinstance(node.left, ast.Constant) and isinstance(node.left.value, str)):
                new = ast.BinOp(left=node.left, op=BIN[type(node.op)](), right=node.right)
                add(node, new, f"binop {type(node.op).__name__}->{BIN[type(node.op)].__name__}")
            self.generic_visit(node)

        def visit_BoolOp(self, node):
            new = ast.BoolOp(op=ast.Or() if isinstance(node.op, ast.And) else ast.And(), values=node.values)
            add(node, new, "boolop swap")
            self.generic_visit(node)

        def visit_UnaryOp(self, node):
            if isinstance(node.op, (ast.Not, ast.USub)):
                add(node, node.operand, f"drop {type(node.op).__name__}")
            self.generic_visit(node)

        def visit_If(self, node):
            add(node.test, ast.UnaryOp(op=ast.Not(), operand=node.test), "negate if")
            self.generic_visit(node)

        def visit_IfExp(self, node):
            add(node.test, ast.UnaryOp(op=ast.Not(), operand=node.test), "negate ifexp")
            self.generic_visit(node)

        def visit_Constant(self, node):
            v = node.value
            if isinstance(v, bool):
                add(node, ast.Constant(value=not v), f"const {v}->{not v}")
            elif isinstance(v, int) and abs(v) <= 3:
                add(node, ast.Constant(value=v + 1), f"const {v}->{v + 1}")
                if v != 0:
                    add(node, ast.Constant(value=v - 1), f"const {v}->{v - 1}")
            elif isinstance(v, float):
                add(node, ast.Constant(value=v * 1000), f"const {v}->{v * 1000}")

        def visit_Call(self, node):
            f = node.func
            if isinstance(f, ast.Attribute) and f.attr in DROP_CALLS and not node.args and not node.keywords:
                add(node, f.value, f"drop .{f.attr}()")
            self.generic_visit(node)

        def visit_Attribute(self, node):
            if node.attr in DROP_ATTRS and isinstance(node.ctx, ast.Load):
                add(node, node.value, f"drop .{node.attr}")
            self.generic_visit(node)

        def visit_Slice(self, node):
            self.generic_visit(node)

    V().visit(tree)
    # make ids
    rel = os.path.basename(path)
    for m in out:
        m["file"] = rel
        m["id"] = hashlib.sha1(f"{rel}:{m['start']}:{m['end']}:{m['new']}".encode()).hexdigest()[:10]
    # drop duplicates and no-ops
    seen, res = set(), []
    for m in out:
        if m["id"] in seen or m["new"].strip("()") == m["old"]:
            continue
        seen.add(m["id"])
        res.append(m)
    return src, res


def reference_passed():
    path = os.path.join(OUT, "reference_tests.json")
    head = subprocess.run(["git", "-C", REPO, "rev-parse", "HEAD"], capture_output=True, text=True).stdout.strip()
    if os.path.exists(path):
        blob = json.load(open(path))
        if blob.get("head") == head:
            return set(blob["passed"])
    d = tempfile.mkdtemp(prefix="pymab-mutref-")
    try:
        shutil.copytree(os.path.join(REPO, "pymablock"), os.path.join(d, "pymablock"), ignore=shutil.ignore_patterns("__pycache__"))
        for f in ("pytest.ini", "pyproject.toml", "conftest.py"):
            if os.path.exists(os.path.join(REPO, f)):
                shutil.copy(os.path.join(REPO, f), d)
        passed = run_tests(d)
    finally:
        shutil.rmtree(d, ignore_errors=True)
    json.dump(dict(head=head, passed=sorted(passed)), open(path, "w"))
    return passed


def run_tests(d):
    env = dict(os.environ)
    for k in ("PYMABLOCK_VERIF", "PYTHONPATH"):
        env.pop(k, None)
    xml = os.path.join(d, "junit.xml")
    cmd = ["/venv/bin/python", "-m", "pytest", "-q", "-p", "no:cacheprovider", "-n", "6", "--timeout=300", "--no-cov", "-o", "addopts=",
           "--continue-on-collection-errors", f"--junitxml={xml}", "pymablock"]
    try:
        subprocess.run(cmd, cwd=d, env=env, capture_output=True, text=True, timeout=900)
    except subprocess.TimeoutExpired:
        return set()
    passed = set()
    try:
        for tc in ET.parse(xml).getroot().iter("testcase"):
            if not any(ch.tag in ("failure", "error", "skipped") for ch in tc):
                passed.add(f"{tc.get('classname')}::{tc.get('name')}")
    except Exception:  # noqa: BLE001
        pass
    return passed


def process(m, src, ref, all_checks=False):
    t0 = time.time()
    d = tempfile.mkdtemp(prefix="pymab-mut-")
    rec = dict(id=m["id"], file=m["file"], line=m["line"], what=m["what"], old=m["old"][:200], new=m["new"][:200])
    try:
        shutil.copytree(os.path.join(REPO, "pymablock"), os.path.join(d, "pymablock"), ignore=shutil.ignore_patterns("__pycache__"))
        for f in ("pytest.ini", "pyproject.toml", "conftest.py"):
            if os.path.exists(os.path.join(REPO, f)):
                shutil.copy(os.path.join(REPO, f), d)
        new_src = src[: m["start"]] + m["new"] + src[m["end"]:]
        try:
            compile(new_src, m["file"], "exec")
        except SyntaxError as e:
            rec.update(status="invalid", detail=str(e))
            return rec
        open(os.path.join(d, "pymablock", m["file"]), "w").write(new_src)
        passed = run_tests(d)
        missing = sorted(ref - passed)
        if missing:
            rec.update(status="killed_by_tests", tests_failed=len(missing), example=missing[0])
            return rec
        rec["status"] = "survived"
        rec["checks"] = {}
        for c in CHECKS[m["file"]]:
            env = dict(os.environ, VERIF_REPO=d, VERIF_EVIDENCE_DIR=os.path.join(d, "ev"), VERIF_REPLAY_DIR=os.path.join(d, "rp"), VERIF_FAILFAST="1")
            r = subprocess.run(["/verif/check", c, "quick"], env=env, capture_output=True, text=True)
            det = [l.strip()[:300] for l in r.stdout.splitlines() if l.startswith("  violation detail")][:1]
            inc = [l.strip()[:300] for l in r.stdout.splitlines() if l.startswith("INCONCLUSIVE")][:1]
            rec["checks"][c] = dict(exit=r.returncode, detail=(det or inc or [""])[0])
            if r.returncode == 1:
                rec["status"] = "caught"
                rec["caught_by"] = c
                break
        return rec
    finally:
        rec["wall_s"] = round(time.time() - t0, 1)
        shutil.rmtree(d, ignore_errors=True)


def main():
    ap = argparse.ArgumentParser()
    ap.add_argument("--files", default=",".join(FILES))
    ap.add_argument("--n", type=int, default=40, help="mutants sampled per file")
    ap.add_argument("--seed", type=int, default=0)
    ap.add_argument("--list", action="store_true")
    ap.add_argument("--only")
    ap.add_argument("--jobs", type=int, default=2)
    a = ap.parse_args()
    os.makedirs(OUT, exist_ok=True)
    results = os.path.join(OUT, "results.jsonl")
    done = set()
    if os.path.exists(results):
        for l in open(results):
            try:
                done.add(json.loads(l)["id"])
            except Exception:  # noqa: BLE001
                pass
    todo = []
    for f in a.files.split(","):
        src, ms = enumerate_mutants(os.path.join(REPO, "pymablock", f))
        rnd = random.Random(f"{a.seed}:{f}")
        rnd.shuffle(ms)
        pick = [m for m in ms if (a.only is None or m["id"] == a.only)][: a.n if a.only is None else None]
        print(f"{f}: {len(ms)} candidate mutants, {len(pick)} sampled", flush=True)
        if a.list:
            for m in pick:
                print("  ", m["id"], m["line"], m["what"], "|", m["old"][:60].replace("\n", " "), "->", m["new"][:60].replace("\n", " "))
            continue
        todo += [(m, src) for m in pick if m["id"] not in done or a.only]
    if a.list:
        return 0
    ref = reference_passed()
    print(f"reference: {len(ref)} tests pass on the unchanged tree; {len(todo)} mutants to run", flush=True)
    # interleave files so that partial campaigns cover all of them
    random.Random(a.seed).shuffle(todo)

    def work(item):
        m, src = item
        rec = process(m, src, ref)
        with open(results, "a") as f:
            f.write(json.dumps(rec) + "\n")
        print(f"{rec['id']} {rec['file']}:{rec['line']} {rec['what']:28s} -> {rec['status']} {rec.get('caught_by', '')} ({rec['wall_s']}s)", flush=True)
        return rec

    with ThreadPoolExecutor(a.jobs) as ex:
        list(ex.map(work, todo))
    return 0


if __name__ == "__main__":
    sys.exit(main())
