#!/venv/bin/python
"""Self-made mutant runner (build-time validation of the monitors, DESIGN section 5).

usage: mut.py <file-in-pymablock> <old> <new> <check> [<check> ...]   [env TIER=quick]
Copies /repo/pymablock to a scratch dir outside /repo and /verif, applies the textual
replacement (must match exactly once), runs the checks with VERIF_REPO pointing at the copy,
prints their verdict lines and removes the copy."""
import os, shutil, subprocess, sys, tempfile

def main():
    f, old, new, *checks = sys.argv[1:]
    tier = os.environ.get("TIER", "quick")
    d = tempfile.mkdtemp(prefix="pymab-mut-")
    try:
        shutil.copytree("/repo/pymablock", os.path.join(d, "pymablock"), ignore=shutil.ignore_patterns("__pycache__"))
        p = os.path.join(d, "pymablock", f)
        s = open(p).read()
        if s.count(old) != 1:
            print(f"pattern matches {s.count(old)} times"); return 2
        open(p, "w").write(s.replace(old, new))
        if os.environ.get("RUN_TESTS"):
            r = subprocess.run(["/venv/bin/python", "-m", "pytest", "-q", "-x", "-p", "no:cacheprovider", "-n", "8", "--no-cov", "-o", "addopts=", "pymablock"], cwd=d, capture_output=True, text=True)
            print("repo tests on mutant:", r.stdout.strip().splitlines()[-1])
        for c in checks:
            env = dict(os.environ, VERIF_REPO=d, VERIF_EVIDENCE_DIR=os.path.join(d, "ev"), VERIF_REPLAY_DIR=os.path.join(d, "rp"))
            r = subprocess.run(["/verif/check", c, tier], env=env, capture_output=True, text=True)
            lines = [l for l in r.stdout.splitlines() if l.startswith(("[", "VIOLATION", "INCONCLUSIVE", "KNOWN", "  violation"))]
            print(f"== {c}: exit {r.returncode}")
            for l in lines[:6]:
                print("   ", l[:300])
    finally:
        shutil.rmtree(d, ignore_errors=True)

if __name__ == "__main__":
    sys.exit(main())
