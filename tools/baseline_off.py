#!/venv/bin/python
"""Run the repository's own test-suite with the verification guard OFF and compare with
/root/.vp/BASELINE.json (all `stable_pass` tests must pass).  Exit 0 iff they do."""
import json, os, subprocess, sys, tempfile, xml.etree.ElementTree as ET

def main():
    base = json.load(open("/root/.vp/BASELINE.json"))
    want = set(base["stable_pass"])
    env = dict(os.environ)
    env.pop("PYMABLOCK_VERIF", None)
    with tempfile.TemporaryDirectory() as d:
        xml = os.path.join(d, "junit.xml")
        cmd = ["/venv/bin/python", "-m", "pytest", "-q", "-p", "no:cacheprovider", "-n", "8",
               "--timeout=900", "--no-cov", "-o", "addopts=", "--continue-on-collection-errors",
               f"--junitxml={xml}", "pymablock"]
        r = subprocess.run(cmd, cwd="/repo", env=env, capture_output=True, text=True)
        passed = set()
        for tc in ET.parse(xml).getroot().iter("testcase"):
            if not any(ch.tag in ("failure", "error", "skipped") for ch in tc):
                passed.add(f"{tc.get('classname')}::{tc.get('name')}")
    missing = sorted(want - passed)
    print(f"baseline: {len(want & passed)}/{len(want)} stable tests pass; {len(passed)} passed in total")
    for m in missing:
        print("MISSING", m)
    if missing:
        print(r.stdout[-3000:])
    return 1 if missing else 0

if __name__ == "__main__":
    sys.exit(main())
