#!/venv/bin/python
"""Regenerate the seeded-changes table of DESIGN.md section 8 from seeded/*/meta.json."""
import glob, json, os, re
HERE = os.path.dirname(os.path.dirname(os.path.abspath(__file__)))
rows = []
for f in sorted(glob.glob(os.path.join(HERE, "seeded", "*", "meta.json"))):
    m = json.load(open(f))
    name = os.path.basename(os.path.dirname(f))
    checks = m["checks"]
    missed_first = any("missed" in v for v in checks.values())
    caught = [k.split()[0] for k, v in checks.items() if v.startswith("caught")]
    caught = list(dict.fromkeys(caught))
    after = "; ".join(k[k.index("(after") + 1:].rstrip(")") for k, v in checks.items() if "(after" in k and v.startswith("caught"))
    note = ("**missed first** — " + after) if missed_first and after else ("missed first" if missed_first else "")
    if any("not caught" in v for v in checks.values()):
        note = (note + " " if note else "") + "; ".join(f"{k.split()[0]}: {v}" for k, v in checks.items() if "not caught" in v)
    rows.append(f"| {name} | {m['property']} | {m['summary'][:210].replace('|', '/')} | {m['needs_to_manifest'][:170].replace('|', '/')} | {', '.join(caught)} | {note[:260].replace('|', '/')} |")
table = "| seeded | property | change | needs | caught by | note |\n|---|---|---|---|---|---|\n" + "\n".join(rows)
p = os.path.join(HERE, "DESIGN.md")
s = open(p).read()
start, end = "<!-- SEEDED-TABLE-START -->", "<!-- SEEDED-TABLE-END -->"
block = f"{start}\n{table}\n{end}"
if start in s:
    s = re.sub(re.escape(start) + r".*?" + re.escape(end), lambda _: block, s, flags=re.S)
else:
    raise SystemExit("markers not found")
open(p, "w").write(s)
print(len(rows), "seeded changes listed")
